import NeoFS.Lemmas.Put
import NeoFS.Lemmas.PutEC
/-! The rule loops of `iterateNodesForObject` and `saveObject` (for `Props/C25.lean`). -/
namespace NeoFS.Put

/-- every part `k < T` of EC rule `j` was acknowledged by a node of `nodes`, different parts by different nodes -/
def ECPlaced (ans : Obj → Node → Bool) (ecAcks : List (Nat × Nat × Node)) (j T : Nat) (nodes : List Node) : Prop :=
  ∃ assign : Nat → Node,
    (∀ k < T, assign k ∈ nodes ∧ (j, k, assign k) ∈ ecAcks ∧ ans (.part j k) (assign k) = true) ∧
    ∀ k < T, ∀ k' < T, assign k = assign k' → k = k'

theorem ECPlaced.mono {ans : Obj → Node → Bool} {a a' : List (Nat × Nat × Node)} {j T : Nat} {nodes : List Node}
    (h : ECPlaced ans a j T nodes) (hs : ∀ x ∈ a, x ∈ a') : ECPlaced ans a' j T nodes := by
  obtain ⟨assign, h1, h2⟩ := h
  exact ⟨assign, fun k hk => ⟨(h1 k hk).1, hs _ (h1 k hk).2.1, (h1 k hk).2.2⟩, h2⟩

theorem Inv.congr {f : Node → Bool} {g g' : G} (h : Inv f g) (hr : g'.results = g.results) (ha : g'.acks = g.acks) :
    Inv f g' :=
  ⟨by rw [hr, ha]; exact h.true_acked, by rw [hr, ha]; exact h.acked_known, by rw [ha]; exact h.acked_good⟩

/-! ### iterateNodesForObject -/

theorem iterRules_sound (f : Node → Bool) (sched : List Node → List Node) (hs : ∀ l, (sched l).Perm l) :
    ∀ (pairs : List (Nat × List Node)) (g g' : G), Inv f g → (∀ x ∈ pairs, x.2.Nodup) →
      iterRules f sched pairs g = (g', none) →
      Inv f g' ∧ (∀ n ∈ g.acks, n ∈ g'.acks) ∧ ∀ x ∈ pairs, x.1 ≤ ackCount g'.acks x.2 := by
  intro pairs
  induction pairs with
  | nil =>
    intro g g' hi _ h
    simp only [iterRules, Prod.mk.injEq] at h
    obtain ⟨rfl, _⟩ := h
    exact ⟨hi, fun _ h => h, by simp⟩
  | cons x more ih =>
    intro g g' hi hnd h
    obtain ⟨c, l⟩ := x
    unfold iterRules at h
    generalize hr : repRule f sched c c l g = r at h
    obtain ⟨g1, st, failed⟩ := r
    simp only at h
    cases failed with
    | true => simp at h
    | false =>
      simp only [Bool.false_eq_true, if_false] at h
      obtain ⟨r1, r2, _, r4, r5, _⟩ := repRule_sound f sched hs c c l g g1 st false (hnd (c, l) List.mem_cons_self) hi hr
      obtain ⟨q1, q2, q3⟩ := ih g1 g' r1 (fun x hx => hnd x (List.mem_cons_of_mem _ hx)) h
      refine ⟨q1, fun n hn => q2 n (r4 n hn), ?_⟩
      intro x hx
      rcases List.mem_cons.mp hx with e | hx
      · subst e
        have hc : c ≤ st := by rcases r5 rfl with h | h <;> exact h
        have := ackCount_mono q2 l
        simp only at *
        omega
      · exact q3 x hx

theorem completion_ne_ok (b : Bool) : completion b ≠ .ok := by
  unfold completion; split_ifs <;> simp

/-- an error of the rule loop is `completion …`, never `ok` -/
theorem iterRules_ne_ok (f : Node → Bool) (sched : List Node → List Node) :
    ∀ (pairs : List (Nat × List Node)) (g g' : G), iterRules f sched pairs g ≠ (g', some .ok) := by
  intro pairs
  induction pairs with
  | nil => intro g g' h; simp [iterRules] at h
  | cons x more ih =>
    intro g g' h
    obtain ⟨c, l⟩ := x
    unfold iterRules at h
    generalize repRule f sched c c l g = r at h
    obtain ⟨g2, st, failed⟩ := r
    simp only at h
    cases failed with
    | true =>
      simp only [if_true, Prod.mk.injEq, Option.some.injEq] at h
      exact completion_ne_ok _ h.2
    | false =>
      simp only [Bool.false_eq_true, if_false] at h
      exact ih g2 g' h

theorem broadcastList_inv (f : Node → Bool) : ∀ (l : List Node) (g : G), Inv f g →
    Inv f (broadcastList f l g) ∧ ∀ n ∈ g.acks, n ∈ (broadcastList f l g).acks := by
  intro l
  induction l with
  | nil => intro g hi; exact ⟨hi, fun _ h => h⟩
  | cons n ns ih =>
    intro g hi
    unfold broadcastList
    cases hl : List.lookup n g.results with
    | some b => simp only; exact ih g hi
    | none =>
      simp only
      have hi1 : Inv f { g with results := (n, false) :: g.results, asked := n :: g.asked, acks := (if f n = true then n :: g.acks else g.acks) } := by
        refine ⟨?_, ?_, ?_⟩
        · intro m hm
          simp only at hm ⊢
          rw [lookup_cons'] at hm
          split_ifs at hm with e
          · simp at hm
          · have := hi.true_acked m hm
            split_ifs
            · exact List.mem_cons_of_mem _ this
            · exact this
        · intro m hm
          simp only at hm ⊢
          rw [lookup_cons']
          split_ifs with e
          · simp
          · apply hi.acked_known m
            split_ifs at hm with hf
            · rcases List.mem_cons.mp hm with h | h
              · exact absurd h e
              · exact h
            · exact hm
        · intro m hm
          simp only at hm
          split_ifs at hm with hf
          · rcases List.mem_cons.mp hm with h | h
            · subst h; exact hf
            · exact hi.acked_good m h
          · exact hi.acked_good m hm
      obtain ⟨q1, q2⟩ := ih _ hi1
      refine ⟨q1, fun m hm => q2 m ?_⟩
      simp only
      split_ifs
      · exact List.mem_cons_of_mem _ hm
      · exact hm

theorem broadcastAll_inv (f : Node → Bool) : ∀ (ls : List (List Node)) (g : G), Inv f g →
    Inv f (broadcastAll f ls g) ∧ ∀ n ∈ g.acks, n ∈ (broadcastAll f ls g).acks := by
  intro ls
  induction ls with
  | nil => intro g hi; exact ⟨hi, fun _ h => h⟩
  | cons l ls ih =>
    intro g hi
    unfold broadcastAll
    obtain ⟨a1, a2⟩ := broadcastList_inv f l g hi
    obtain ⟨b1, b2⟩ := ih _ a1
    exact ⟨b1, fun n hn => b2 n (a2 n hn)⟩

theorem iterateNodes_sound (f : Node → Bool) (sched : List Node → List Node) (hs : ∀ l, (sched l).Perm l)
    (counts : List Nat) (lists : List (List Node)) (bc : Bool) (g g' : G) (hi : Inv f g)
    (hnd : ∀ x ∈ counts.zip lists, x.2.Nodup) (h : iterateNodes f sched counts lists bc g = (g', .ok)) :
    Inv f g' ∧ ∀ x ∈ counts.zip lists, x.1 ≤ ackCount g'.acks x.2 := by
  unfold iterateNodes at h
  generalize hr : iterRules f sched (counts.zip lists) g = r at h
  obtain ⟨g1, o⟩ := r
  cases o with
  | some e =>
    simp only [Prod.mk.injEq] at h
    obtain ⟨rfl, rfl⟩ := h
    exact absurd hr (iterRules_ne_ok f sched _ g g1)
  | none =>
    simp only at h
    obtain ⟨q1, _, q3⟩ := iterRules_sound f sched hs _ g g1 hi hnd hr
    cases bc with
    | false =>
      simp only [Bool.false_eq_true, if_false, Prod.mk.injEq, and_true] at h
      subst h
      exact ⟨q1, q3⟩
    | true =>
      simp only [if_true, Prod.mk.injEq, and_true] at h
      subst h
      obtain ⟨b1, b2⟩ := broadcastAll_inv f lists g1 q1
      exact ⟨b1, fun x hx => Nat.le_trans (q3 x hx) (ackCount_mono b2 _)⟩

/-! ### a ready EC part -/

theorem seqPart_sound (f : Node → Bool) (nodes : List Node) : ∀ (is : List Nat) (g g' : G),
    (∀ n ∈ g.acks, f n = true) → seqPart f nodes is g = (g', true) →
    (∀ n ∈ g'.acks, f n = true) ∧ ∃ i ∈ is, nodes.getD i 0 ∈ g'.acks := by
  intro is
  induction is with
  | nil => intro g g' _ h; simp [seqPart] at h
  | cons i is ih =>
    intro g g' hg h
    unfold seqPart at h
    simp only at h
    by_cases hb : f (nodes.getD i 0) = true
    · simp only [hb, if_true, Prod.mk.injEq, and_true] at h
      subst h
      refine ⟨?_, i, List.mem_cons_self, by simp⟩
      intro n hn
      simp only at hn
      rcases List.mem_cons.mp hn with e | hn
      · subst e; exact hb
      · exact hg n hn
    · have hb' : f (nodes.getD i 0) = false := by simpa using hb
      simp only [hb', Bool.false_eq_true, if_false] at h
      obtain ⟨a, j, hj, b⟩ := ih _ g' (by simpa using hg) h
      exact ⟨a, j, List.mem_cons_of_mem _ hj, b⟩

/-! ### the rule loop of saveObject without a total cap (`MaxReplicas = 0`) -/

theorem ecRuleStep_sound0 (e : Env) (hM : e.maxReplicas = 0) (ruleIdx : Nat) (todo : List Nat) (s s' : LS)
    (o : Option (Option Res)) (hnd : (e.lists.getD ruleIdx []).Nodup)
    (h : ecRuleStep e ruleIdx todo s = (s', o)) (ho : ∀ r, o ≠ some (some r)) :
    s'.g.results = s.g.results ∧ s'.g.acks = s.g.acks ∧ (∀ x ∈ s.g.ecAcks, x ∈ s'.g.ecAcks) ∧
      (ecDisabled e.ecLimits (ruleIdx - e.rep.length) = false →
        ECPlaced e.ans s'.g.ecAcks (ruleIdx - e.rep.length)
          ((e.ec.getD (ruleIdx - e.rep.length) (0, 0)).1 + (e.ec.getD (ruleIdx - e.rep.length) (0, 0)).2)
          (e.lists.getD ruleIdx [])) := by
  unfold ecRuleStep at h
  simp only at h
  by_cases hd : ecDisabled e.ecLimits (ruleIdx - e.rep.length) = true
  · rw [if_pos hd] at h
    simp only [Prod.mk.injEq] at h
    obtain ⟨rfl, _⟩ := h
    exact ⟨rfl, rfl, fun _ h => h, by simp [hd]⟩
  · rw [if_neg hd] at h
    generalize hr : applyEC (fun k n => e.ans (.part (ruleIdx - e.rep.length) k) n)
      (e.ec.getD (ruleIdx - e.rep.length) (0, 0)).1 (e.ec.getD (ruleIdx - e.rep.length) (0, 0)).2
      (e.lists.getD ruleIdx []) (e.picks (ruleIdx - e.rep.length)) = r at h
    obtain ⟨okAll, acks⟩ := r
    simp only at h
    cases okAll with
    | false =>
      simp only [Bool.not_false, if_true, hM] at h
      simp only [Prod.mk.injEq] at h
      exact absurd h.2.symm (ho _)
    | true =>
      have hM' : ¬ (e.maxReplicas > 0) := by omega
      simp only [Bool.not_true, Bool.false_eq_true, if_false, if_neg hM', Prod.mk.injEq] at h
      obtain ⟨rfl, _⟩ := h
      refine ⟨rfl, rfl, fun x hx => List.mem_append_left _ hx, fun _ => ?_⟩
      obtain ⟨assign, a1, a2⟩ := applyEC_sound _ _ _ _ _ acks hnd hr
      refine ⟨assign, fun k hk => ⟨(a1 k hk).1, ?_, (a1 k hk).2.2⟩, a2⟩
      simp only
      apply List.mem_append_right
      exact List.mem_map.mpr ⟨(k, assign k), (a1 k hk).2.1, rfl⟩

theorem repRuleStep_sound0 (e : Env) (hM : e.maxReplicas = 0) (hs : ∀ l, (e.sched l).Perm l)
    (ruleIdx : Nat) (todo : List Nat) (s s' : LS) (o : Option (Option Res))
    (hi : Inv (e.ans .main) s.g) (hnd : (e.lists.getD ruleIdx []).Nodup)
    (h : repRuleStep e ruleIdx todo s = (s', o)) (ho : ∀ r, o ≠ some (some r)) :
    Inv (e.ans .main) s'.g ∧ (∀ n ∈ s.g.acks, n ∈ s'.g.acks) ∧ s'.g.ecAcks = s.g.ecAcks ∧
      e.rep.getD ruleIdx 0 ≤ ackCount s'.g.acks (e.lists.getD ruleIdx []) := by
  unfold repRuleStep at h
  simp only at h
  have hM' : ¬ (e.maxReplicas > 0) := by omega
  by_cases h0 : e.rep.getD ruleIdx 0 = 0
  · rw [if_pos h0] at h
    simp only [Prod.mk.injEq] at h
    obtain ⟨rfl, _⟩ := h
    exact ⟨hi, fun _ h => h, rfl, by omega⟩
  · rw [if_neg h0] at h
    simp only [if_neg hM'] at h
    generalize hr : repRule (e.ans .main) e.sched (e.rep.getD ruleIdx 0) (e.rep.getD ruleIdx 0)
      (e.lists.getD ruleIdx []) s.g = r at h
    obtain ⟨g1, st, failed⟩ := r
    simp only at h
    obtain ⟨r1, r2, _, r4, r5, r6⟩ := repRule_sound _ _ hs _ _ _ _ g1 st failed hnd hi hr
    cases failed with
    | true =>
      simp only [if_true, Prod.mk.injEq] at h
      exact absurd h.2.symm (ho _)
    | false =>
      simp only [Bool.false_eq_true, if_false, Prod.mk.injEq] at h
      obtain ⟨rfl, _⟩ := h
      refine ⟨r1, r4, r6, ?_⟩
      have : e.rep.getD ruleIdx 0 ≤ st := by rcases r5 rfl with h | h <;> exact h
      simp only
      omega

/-- what success of the uncapped rule loop means for the rules it visited -/
theorem ruleLoop_sound0 (e : Env) (hM : e.maxReplicas = 0) (hs : ∀ l, (e.sched l).Perm l) :
    ∀ (todo : List Nat) (s s' : LS), Inv (e.ans .main) s.g → (∀ i ∈ todo, (e.lists.getD i []).Nodup) →
      ruleLoop e todo s = (s', none) →
      Inv (e.ans .main) s'.g ∧ (∀ n ∈ s.g.acks, n ∈ s'.g.acks) ∧ (∀ x ∈ s.g.ecAcks, x ∈ s'.g.ecAcks) ∧
      (∀ i ∈ todo, i < e.rep.length → e.rep.getD i 0 ≤ ackCount s'.g.acks (e.lists.getD i [])) ∧
      (∀ i ∈ todo, e.rep.length ≤ i → ecDisabled e.ecLimits (i - e.rep.length) = false →
        ECPlaced e.ans s'.g.ecAcks (i - e.rep.length)
          ((e.ec.getD (i - e.rep.length) (0, 0)).1 + (e.ec.getD (i - e.rep.length) (0, 0)).2) (e.lists.getD i [])) := by
  intro todo
  induction todo with
  | nil =>
    intro s s' hi _ h
    simp only [ruleLoop, Prod.mk.injEq] at h
    obtain ⟨rfl, _⟩ := h
    exact ⟨hi, fun _ h => h, fun _ h => h, by simp, by simp⟩
  | cons ruleIdx todo ih =>
    intro s s' hi hnd h
    unfold ruleLoop at h
    simp only at h
    have hnd0 := hnd ruleIdx List.mem_cons_self
    have hndt : ∀ i ∈ todo, (e.lists.getD i []).Nodup := fun i hi => hnd i (List.mem_cons_of_mem _ hi)
    by_cases hge : ruleIdx ≥ e.rep.length
    · rw [if_pos hge] at h
      generalize hst : ecRuleStep e ruleIdx todo s = step at h
      obtain ⟨s1, o⟩ := step
      simp only at h
      cases o with
      | some out =>
        simp only [Prod.mk.injEq] at h
        obtain ⟨rfl, rfl⟩ := h
        obtain ⟨a1, a2, a3, a4⟩ := ecRuleStep_sound0 e hM ruleIdx todo s s1 (some none) hnd0 hst (by simp)
        refine ⟨hi.congr a1 a2, fun n hn => by rw [a2]; exact hn, a3, ?_, ?_⟩
        · -- `break` does not happen without a cap: the step returns `some none` only when MaxReplicas > 0
          exfalso
          unfold ecRuleStep at hst
          simp only at hst
          have hM' : ¬ (e.maxReplicas > 0) := by omega
          split_ifs at hst <;> simp_all
        · exfalso
          unfold ecRuleStep at hst
          simp only at hst
          have hM' : ¬ (e.maxReplicas > 0) := by omega
          split_ifs at hst <;> simp_all
      | none =>
        simp only at h
        obtain ⟨a1, a2, a3, a4⟩ := ecRuleStep_sound0 e hM ruleIdx todo s s1 none hnd0 hst (by simp)
        obtain ⟨q1, q2, q3, q4, q5⟩ := ih s1 s' (hi.congr a1 a2) hndt h
        refine ⟨q1, fun n hn => q2 n (by rw [a2]; exact hn), fun x hx => q3 x (a3 x hx), ?_, ?_⟩
        · intro i hi' hlt
          rcases List.mem_cons.mp hi' with e' | hi'
          · subst e'; omega
          · exact q4 i hi' hlt
        · intro i hi' hle hen
          rcases List.mem_cons.mp hi' with e' | hi'
          · subst e'; exact (a4 hen).mono q3
          · exact q5 i hi' hle hen
    · rw [if_neg hge] at h
      generalize hst : repRuleStep e ruleIdx todo s = step at h
      obtain ⟨s1, o⟩ := step
      simp only at h
      cases o with
      | some out =>
        simp only [Prod.mk.injEq] at h
        obtain ⟨rfl, rfl⟩ := h
        exfalso
        unfold repRuleStep at hst
        simp only at hst
        have hM' : ¬ (e.maxReplicas > 0) := by omega
        split_ifs at hst <;> simp_all
      | none =>
        simp only at h
        obtain ⟨a1, a2, a3, a4⟩ := repRuleStep_sound0 e hM hs ruleIdx todo s s1 none hi hnd0 hst (by simp)
        obtain ⟨q1, q2, q3, q4, q5⟩ := ih s1 s' a1 hndt h
        refine ⟨q1, fun n hn => q2 n (a2 n hn), fun x hx => q3 x (by rw [a3]; exact hx), ?_, ?_⟩
        · intro i hi' hlt
          rcases List.mem_cons.mp hi' with e' | hi'
          · subst e'; exact Nat.le_trans a4 (ackCount_mono q2 _)
          · exact q4 i hi' hlt
        · intro i hi' hle hen
          rcases List.mem_cons.mp hi' with e' | hi'
          · subst e'; omega
          · exact q5 i hi' hle hen

/-! ### the rule loop never returns `ok` as an error -/

theorem ecRuleStep_ne_ok (e : Env) (ruleIdx : Nat) (todo : List Nat) (s s' : LS) (r : Res)
    (h : ecRuleStep e ruleIdx todo s = (s', some (some r))) : r ≠ .ok := by
  unfold ecRuleStep at h
  simp only at h
  intro hr
  subst hr
  split_ifs at h <;> simp only [Prod.mk.injEq, Option.some.injEq, reduceCtorEq, and_false] at h
  all_goals exact completion_ne_ok _ h.2

theorem repRuleStep_ne_ok (e : Env) (ruleIdx : Nat) (todo : List Nat) (s s' : LS) (r : Res)
    (h : repRuleStep e ruleIdx todo s = (s', some (some r))) : r ≠ .ok := by
  unfold repRuleStep at h
  simp only at h
  intro hr
  subst hr
  split_ifs at h <;> simp only [Prod.mk.injEq, Option.some.injEq, reduceCtorEq, and_false] at h
  all_goals exact completion_ne_ok _ h.2

theorem ruleLoop_ne_ok (e : Env) : ∀ (todo : List Nat) (s s' : LS), ruleLoop e todo s ≠ (s', some .ok) := by
  intro todo
  induction todo with
  | nil => intro s s' h; simp [ruleLoop] at h
  | cons ruleIdx todo ih =>
    intro s s' h
    unfold ruleLoop at h
    simp only at h
    by_cases hge : ruleIdx ≥ e.rep.length
    · rw [if_pos hge] at h
      generalize hst : ecRuleStep e ruleIdx todo s = step at h
      obtain ⟨s1, o⟩ := step
      cases o with
      | none => exact ih s1 s' h
      | some out =>
        simp only [Prod.mk.injEq] at h
        obtain ⟨rfl, rfl⟩ := h
        exact ecRuleStep_ne_ok e ruleIdx todo s s1 .ok hst rfl
    · rw [if_neg hge] at h
      generalize hst : repRuleStep e ruleIdx todo s = step at h
      obtain ⟨s1, o⟩ := step
      cases o with
      | none => exact ih s1 s' h
      | some out =>
        simp only [Prod.mk.injEq] at h
        obtain ⟨rfl, rfl⟩ := h
        exact repRuleStep_ne_ok e ruleIdx todo s s1 .ok hst rfl

end NeoFS.Put
