import NeoFS.Model.Handlers
import Mathlib.Tactic.Ring
import Mathlib.Tactic.Linarith
/-!
Lemmas for the control-skeleton model (C29, C32, C45): the packed natural-number state of
`Model/Handlers.lean` is a faithful finite map from checks to outcomes, so a state reached by a history is
exactly "the latest outcome of every check in that history" (`get_runEv`), and the checker's soundness can be
read over that obviously-correct view (`checker_sound_view`).
-/
namespace NeoFS.Handlers

/-- digit `i` (base 4) of `s` -/
def dig (s i : Nat) : Nat := (s / 4 ^ i) % 4

theorem shr_eq (s i : Nat) : (s >>> (2 * i)) % 4 = dig s i := by
  unfold dig
  rw [Nat.shiftRight_eq_div_pow, Nat.pow_mul]

theorem shl_eq (x i : Nat) : x <<< (2 * i) = x * 4 ^ i := by
  rw [Nat.shiftLeft_eq, Nat.pow_mul]

/-- replacing digit `i` by `v` -/
def setDig (s i v : Nat) : Nat := s - dig s i * 4 ^ i + v * 4 ^ i

theorem decomp (s P : Nat) (hP : 0 < P) :
    s = P * (4 * (s / P / 4)) + (s / P % 4) * P + s % P := by
  have h1 := Nat.div_add_mod s P
  have h2 := Nat.div_add_mod (s / P) 4
  calc s = P * (s / P) + s % P := h1.symm
    _ = P * (4 * (s / P / 4) + s / P % 4) + s % P := by rw [h2]
    _ = _ := by ring

theorem dig_setDig_same (s i v : Nat) (hv : v < 4) : dig (setDig s i v) i = v := by
  unfold setDig dig
  set P := 4 ^ i with hP
  have hpos : 0 < P := by positivity
  have hd := decomp s P hpos
  have hr : s % P < P := Nat.mod_lt _ hpos
  set q := s / P / 4
  set d := s / P % 4
  set r := s % P
  have h1 : s - d * P + v * P = P * (4 * q + v) + r := by
    have : d * P ≤ s := by rw [hd]; nlinarith
    have e : s - d * P = P * (4 * q) + r := by
      rw [hd]; 
      have : P * (4 * q) + d * P + r - d * P = P * (4 * q) + r := by omega
      exact this
    rw [e]; ring
  rw [h1, Nat.mul_add_div hpos, Nat.div_eq_of_lt hr]
  omega

theorem dig_lo (a x r i j : Nat) (hj : j < i) : dig (4 ^ (i + 1) * a + x * 4 ^ i + r) j = dig r j := by
  unfold dig
  obtain ⟨k, rfl⟩ : ∃ k, i = j + 1 + k := ⟨i - j - 1, by omega⟩
  have hpos : 0 < 4 ^ j := by positivity
  have e : 4 ^ (j + 1 + k + 1) * a + x * 4 ^ (j + 1 + k) + r =
      4 ^ j * (4 * (4 ^ (k + 1) * a + x * 4 ^ k)) + r := by ring
  rw [e, Nat.mul_add_div hpos]
  omega

theorem dig_hi (a x r i j : Nat) (hj : i < j) (hx : x < 4) (hr : r < 4 ^ i) :
    dig (4 ^ (i + 1) * a + x * 4 ^ i + r) j = dig a (j - i - 1) := by
  unfold dig
  obtain ⟨k, rfl⟩ : ∃ k, j = i + 1 + k := ⟨j - i - 1, by omega⟩
  have hk : i + 1 + k - i - 1 = k := by omega
  rw [hk]
  have hpos : 0 < 4 ^ (i + 1) := by positivity
  have hlt : x * 4 ^ i + r < 4 ^ (i + 1) := by
    have : 4 ^ (i + 1) = 4 * 4 ^ i := by ring
    nlinarith
  have e : (4 ^ (i + 1) * a + x * 4 ^ i + r) / 4 ^ (i + 1 + k) = a / 4 ^ k := by
    have hp : 4 ^ (i + 1 + k) = 4 ^ (i + 1) * 4 ^ k := Nat.pow_add 4 (i + 1) k
    rw [hp, ← Nat.div_div_eq_div_mul]
    congr 1
    rw [Nat.add_assoc, Nat.mul_add_div hpos, Nat.div_eq_of_lt hlt]
    rfl
  rw [e]

theorem dig_setDig_other (s i j v : Nat) (hv : v < 4) (hij : j ≠ i) : dig (setDig s i v) j = dig s j := by
  have hpos : 0 < 4 ^ i := by positivity
  have hd := decomp s (4 ^ i) hpos
  have hr : s % 4 ^ i < 4 ^ i := Nat.mod_lt _ hpos
  have hdlt : s / 4 ^ i % 4 < 4 := Nat.mod_lt _ (by omega)
  -- both numbers have the same part above digit i and the same part below it
  have e1 : s = 4 ^ (i + 1) * (s / 4 ^ i / 4) + (s / 4 ^ i % 4) * 4 ^ i + s % 4 ^ i := by
    calc s = 4 ^ i * (4 * (s / 4 ^ i / 4)) + (s / 4 ^ i % 4) * 4 ^ i + s % 4 ^ i := hd
      _ = _ := by ring
  have e2 : setDig s i v = 4 ^ (i + 1) * (s / 4 ^ i / 4) + v * 4 ^ i + s % 4 ^ i := by
    unfold setDig dig
    have hle : (s / 4 ^ i % 4) * 4 ^ i ≤ s := by
      calc (s / 4 ^ i % 4) * 4 ^ i ≤ 4 ^ i * (4 * (s / 4 ^ i / 4)) + (s / 4 ^ i % 4) * 4 ^ i + s % 4 ^ i := by omega
        _ = s := hd.symm
    have : s - (s / 4 ^ i % 4) * 4 ^ i = 4 ^ (i + 1) * (s / 4 ^ i / 4) + s % 4 ^ i := by
      have h3 : 4 ^ (i + 1) * (s / 4 ^ i / 4) + (s / 4 ^ i % 4) * 4 ^ i + s % 4 ^ i - (s / 4 ^ i % 4) * 4 ^ i =
          4 ^ (i + 1) * (s / 4 ^ i / 4) + s % 4 ^ i := by omega
      rw [← h3, ← e1]
    rw [this]; ring
  rcases Nat.lt_or_gt_of_ne hij with h | h
  · rw [e2, dig_lo _ _ _ _ _ h]
    conv_rhs => rw [e1]
    rw [dig_lo _ _ _ _ _ h]
  · rw [e2, dig_hi _ _ _ _ _ h hv hr]
    conv_rhs => rw [e1]
    rw [dig_hi _ _ _ _ _ h hdlt hr]

/-! ### The packed state is a finite map `Tag → Option Out` -/

theorem idx_inj {t t' : Tag} (h : t.idx = t'.idx) : t = t' := by
  cases t <;> cases t' <;> simp [Tag.idx] at h <;> first | rfl | omega | (subst h; rfl)

def decode : Nat → Option Out
  | 0 => none
  | 1 => some .pass
  | 2 => some .soft
  | _ => some .deny

theorem get_eq (s : St) (t : Tag) : St.get s t = decode (dig s t.idx) := by
  unfold St.get
  rw [shr_eq]
  rfl

theorem erase_eq (s : St) (t : Tag) : St.erase s t = setDig s t.idx 0 := by
  unfold St.erase setDig
  rw [shr_eq, shl_eq]; simp

theorem put_eq (s : St) (t : Tag) (o : Out) : St.put s t o = setDig s t.idx o.code := by
  unfold St.put St.erase setDig
  rw [shr_eq, shl_eq, shl_eq]

theorem code_lt (o : Out) : o.code < 4 := by cases o <;> simp [Out.code]

theorem decode_code (o : Out) : decode o.code = some o := by cases o <;> rfl

theorem get_put_same (s : St) (t : Tag) (o : Out) : (St.put s t o).get t = some o := by
  rw [get_eq, put_eq, dig_setDig_same _ _ _ (code_lt o), decode_code]

theorem get_put_other (s : St) {t t' : Tag} (o : Out) (h : t' ≠ t) : (St.put s t o).get t' = s.get t' := by
  rw [get_eq, get_eq, put_eq, dig_setDig_other _ _ _ _ (code_lt o) (fun e => h (idx_inj e))]

theorem get_erase_same (s : St) (t : Tag) : (St.erase s t).get t = none := by
  rw [get_eq, erase_eq, dig_setDig_same _ _ _ (by omega)]; rfl

theorem get_erase_other (s : St) {t t' : Tag} (h : t' ≠ t) : (St.erase s t).get t' = s.get t' := by
  rw [get_eq, get_eq, erase_eq, dig_setDig_other _ _ _ _ (by omega) (fun e => h (idx_inj e))]

theorem get_init (t : Tag) : St.init.get t = none := by
  rw [get_eq]; simp [St.init, dig, decode]

/-! ### What a state means: the latest outcome of every check in the history -/

/-- The obviously-correct reading of a history: for every check, the outcome of its latest call (or the
latest value a helper result was given), `none` if there was none. -/
abbrev View := Tag → Option Out

def View.set (f : View) (t : Tag) (v : Option Out) : View := fun t' => if t' = t then v else f t'

def viewStep (f : View) : Event → View
  | .check t o => f.set t (some o)
  | .assign t v => f.set t v
  | .effect _ => f

def lastOutcomes (evs : List Event) : View := evs.foldl viewStep (fun _ => none)

theorem get_applyEv (s : St) (f : View) (h : ∀ t, s.get t = f t) (ev : Event) :
    ∀ t, (applyEv s ev).get t = viewStep f ev t := by
  intro t'
  cases ev with
  | check t o =>
    simp only [applyEv, viewStep, View.set]
    by_cases e : t' = t
    · subst e; simp [get_put_same]
    · simp [e, get_put_other _ _ e, h]
  | assign t v =>
    cases v with
    | some o =>
      simp only [applyEv, viewStep, View.set]
      by_cases e : t' = t
      · subst e; simp [get_put_same]
      · simp [e, get_put_other _ _ e, h]
    | none =>
      simp only [applyEv, viewStep, View.set]
      by_cases e : t' = t
      · subst e; simp [get_erase_same]
      · simp [e, get_erase_other _ e, h]
  | effect e => simp [applyEv, viewStep, h]

theorem get_runEv_from (evs : List Event) : ∀ (s : St) (f : View), (∀ t, s.get t = f t) →
    ∀ t, (runEv s evs).get t = (evs.foldl viewStep f) t := by
  induction evs with
  | nil => intro s f h t; simpa [runEv] using h t
  | cons ev r ih =>
    intro s f h t
    simp only [runEv, List.foldl_cons]
    exact ih (applyEv s ev) (viewStep f ev) (get_applyEv s f h ev) t

/-- **The packed state of a history is exactly the map "latest outcome of every check".** -/
theorem get_runEv (evs : List Event) (t : Tag) : (runEv St.init evs).get t = lastOutcomes evs t :=
  get_runEv_from evs St.init (fun _ => none) get_init t

/-- Soundness of the checker, read over the history: if the checker accepts `p` under a policy written over
"latest outcome of each check", then on every run of `p` every effect happens after a history whose latest
check outcomes satisfy the policy. -/
theorem checker_sound_view {πv : Eff → (Tag → Option Out) → Bool} {p : Prog}
    (h : checker (Policy.ofView πv) p = true)
    {evs : List Event} {x : Option Nat} (hr : Run allOuts p St.init evs x)
    {pre post' : List Event} {e : Eff} (hs : evs = pre ++ Event.effect e :: post') :
    πv e (lastOutcomes pre) = true := by
  have h1 := checker_sound h hr hs
  unfold Policy.ofView at h1
  have : (fun t => (runEv St.init pre).get t) = lastOutcomes pre := funext (get_runEv pre)
  rw [this] at h1
  exact h1

end NeoFS.Handlers
