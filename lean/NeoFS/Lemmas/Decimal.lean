import NeoFS.Model.Int256
import Mathlib.Tactic.Ring
import Mathlib.Tactic.Linarith
/-! Helper lemmas about decimal digit strings for `Props/C05.lean`. -/
namespace NeoFS.Int256

theorem decVal_foldl (l : List Char) (acc : Nat) :
    l.foldl (fun a c => a * 10 + digitVal c) acc = acc * 10 ^ l.length + decVal l := by
  unfold decVal
  induction l generalizing acc with
  | nil => simp
  | cons c r ih =>
    simp only [List.foldl_cons, List.length_cons]
    rw [ih (acc * 10 + digitVal c), ih (0 * 10 + digitVal c)]
    ring

theorem decVal_cons (c : Char) (l : List Char) :
    decVal (c :: l) = digitVal c * 10 ^ l.length + decVal l := by
  have := decVal_foldl l (0 * 10 + digitVal c)
  unfold decVal at *
  simp only [List.foldl_cons]
  rw [this]; ring

theorem digit_facts : ∀ k : Fin 10,
    digitVal (Char.ofNat ('0'.toNat + k.val)) = k.val ∧ isDigit (Char.ofNat ('0'.toNat + k.val)) = true
      ∧ Char.ofNat ('0'.toNat + k.val) ≠ '+' ∧ Char.ofNat ('0'.toNat + k.val) ≠ '-' := by decide

theorem isDigit_ne_sign (c : Char) (h : isDigit c = true) : c ≠ '+' ∧ c ≠ '-' := by
  constructor <;> (rintro rfl; revert h; decide)

theorem isDigit_digitVal_lt (c : Char) (h : isDigit c = true) : digitVal c < 10 := by
  unfold isDigit at h
  simp only [Bool.and_eq_true, decide_eq_true_eq] at h
  obtain ⟨h1, h2⟩ := h
  have h1' : '0'.toNat ≤ c.toNat := UInt32.le_iff_toNat_le.mp h1
  have h2' : c.toNat ≤ '9'.toNat := UInt32.le_iff_toNat_le.mp h2
  unfold digitVal
  have e0 : '0'.toNat = 48 := by decide
  have e9 : '9'.toNat = 57 := by decide
  omega

theorem decVal_lt (l : List Char) (h : l.all isDigit = true) : decVal l < 10 ^ l.length := by
  induction l with
  | nil => simp [decVal]
  | cons c r ih =>
    simp only [List.all_cons, Bool.and_eq_true] at h
    rw [decVal_cons, List.length_cons, Nat.pow_succ]
    have := isDigit_digitVal_lt c h.1
    have := ih h.2
    nlinarith [Nat.pow_pos (n := r.length) (show 0 < 10 by decide)]

/-- What `natToDecAux` computes: the digits of `n` in front of `acc`. -/
theorem natToDecAux_spec (fuel n : Nat) (acc : List Char) (hf : n < fuel)
    (hacc : acc.all isDigit = true) :
    let r := natToDecAux fuel n acc
    decVal r = n * 10 ^ acc.length + decVal acc ∧ r.all isDigit = true ∧ r ≠ [] := by
  induction fuel generalizing n acc with
  | zero => omega
  | succ f ih =>
    have hk := digit_facts ⟨n % 10, Nat.mod_lt _ (by decide)⟩
    simp only at hk
    obtain ⟨hv, hd, _, _⟩ := hk
    simp only [natToDecAux]
    by_cases h0 : n / 10 = 0
    · simp only [h0, if_true]
      refine ⟨?_, ?_, by simp⟩
      · rw [decVal_cons, hv]
        have : n % 10 = n := by omega
        rw [this]
      · rw [List.all_cons, hd, hacc]; rfl
    · simp only [h0, if_false]
      have hlt : n / 10 < f := by omega
      have hacc' : (Char.ofNat ('0'.toNat + n % 10) :: acc).all isDigit = true := by
        rw [List.all_cons, hd, hacc]; rfl
      obtain ⟨e1, e2, e3⟩ := ih (n / 10) _ hlt hacc'
      refine ⟨?_, e2, e3⟩
      rw [e1, decVal_cons, hv, List.length_cons, Nat.pow_succ]
      have := Nat.div_add_mod n 10
      calc n / 10 * (10 ^ acc.length * 10) + (n % 10 * 10 ^ acc.length + decVal acc)
          = (10 * (n / 10) + n % 10) * 10 ^ acc.length + decVal acc := by ring
        _ = n * 10 ^ acc.length + decVal acc := by rw [this]

theorem natToDec_spec (n : Nat) :
    decVal (natToDec n) = n ∧ (natToDec n).all isDigit = true ∧ natToDec n ≠ [] := by
  have := natToDecAux_spec (n + 1) n [] (by omega) (by simp)
  simpa [natToDec, decVal] using this

theorem dropWhile_zero_decVal (l : List Char) : decVal (l.dropWhile (· = '0')) = decVal l := by
  induction l with
  | nil => rfl
  | cons c r ih =>
    by_cases h : c = '0'
    · subst h
      simp only [List.dropWhile_cons, decide_true, if_true]
      rw [ih, decVal_cons]
      simp [digitVal]
    · simp [List.dropWhile_cons, h]

theorem dropWhile_zero_all (l : List Char) :
    (l.dropWhile (· = '0')).all isDigit = l.all isDigit := by
  induction l with
  | nil => rfl
  | cons c r ih =>
    by_cases h : c = '0'
    · subst h
      simp only [List.dropWhile_cons, decide_true, if_true, List.all_cons]
      rw [ih]; simp [show isDigit '0' = true by decide]
    · simp [List.dropWhile_cons, h]

end NeoFS.Int256

namespace NeoFS.Int256

theorem isDigit_bounds (c : Char) (h : isDigit c = true) : 48 ≤ c.toNat ∧ c.toNat ≤ 57 := by
  unfold isDigit at h
  simp only [Bool.and_eq_true, decide_eq_true_eq] at h
  obtain ⟨h1, h2⟩ := h
  have h1' : '0'.toNat ≤ c.toNat := UInt32.le_iff_toNat_le.mp h1
  have h2' : c.toNat ≤ '9'.toNat := UInt32.le_iff_toNat_le.mp h2
  have e0 : '0'.toNat = 48 := by decide
  have e9 : '9'.toNat = 57 := by decide
  omega

theorem digitVal_eq (c : Char) : digitVal c = c.toNat - 48 := by
  unfold digitVal; rfl

/-- Equal-length digit strings: byte-wise comparison is numeric comparison. -/
theorem lexCmpChars_eq_len (a b : List Char) (hl : a.length = b.length)
    (ha : a.all isDigit = true) (hb : b.all isDigit = true) :
    lexCmpChars a b = ordNat (decVal a) (decVal b) := by
  induction a generalizing b with
  | nil =>
    cases b with
    | nil => simp [lexCmpChars, lexCmp, ordNat, decVal]
    | cons y ys => simp at hl
  | cons x xs ih =>
    cases b with
    | nil => simp at hl
    | cons y ys =>
      simp only [List.all_cons, Bool.and_eq_true] at ha hb
      have hlen : xs.length = ys.length := by simpa using hl
      have := ih ys hlen ha.2 hb.2
      unfold lexCmpChars at this ⊢
      simp only [List.map_cons, lexCmp]
      rw [this, decVal_cons, decVal_cons, hlen]
      have bx := isDigit_bounds x ha.1
      have by_ := isDigit_bounds y hb.1
      have rx := decVal_lt xs ha.2
      have ry := decVal_lt ys hb.2
      rw [hlen] at rx
      rw [digitVal_eq, digitVal_eq]
      have hp : 0 < 10 ^ ys.length := Nat.pow_pos (by decide)
      generalize 10 ^ ys.length = m at *
      generalize decVal xs = p at *
      generalize decVal ys = q at *
      unfold ordNat
      by_cases c1 : x.toNat < y.toNat
      · have : (x.toNat - 48) * m + p < (y.toNat - 48) * m + q := by
          have : (x.toNat - 48 + 1) * m ≤ (y.toNat - 48) * m := Nat.mul_le_mul_right m (by omega)
          rw [Nat.add_mul, Nat.one_mul] at this
          omega
        simp [c1, this]
      · by_cases c2 : y.toNat < x.toNat
        · have h2 : (y.toNat - 48) * m + q < (x.toNat - 48) * m + p := by
            have : (y.toNat - 48 + 1) * m ≤ (x.toNat - 48) * m := Nat.mul_le_mul_right m (by omega)
            rw [Nat.add_mul, Nat.one_mul] at this
            omega
          have h1 : ¬ (x.toNat - 48) * m + p < (y.toNat - 48) * m + q := by omega
          simp [c1, c2, h1, h2]
        · have e : x.toNat = y.toNat := by omega
          rw [e]
          simp only [c2, Nat.lt_irrefl, if_false]
          by_cases d1 : p < q
          · have : (y.toNat - 48) * m + p < (y.toNat - 48) * m + q := by omega
            simp [d1, this]
          · by_cases d2 : q < p
            · have h2 : (y.toNat - 48) * m + q < (y.toNat - 48) * m + p := by omega
              have h1 : ¬ (y.toNat - 48) * m + p < (y.toNat - 48) * m + q := by omega
              simp [d1, d2, h1, h2]
            · have h1 : ¬ (y.toNat - 48) * m + p < (y.toNat - 48) * m + q := by omega
              have h2 : ¬ (y.toNat - 48) * m + q < (y.toNat - 48) * m + p := by omega
              simp [d1, d2, h1, h2]

/-- A digit string without a leading zero is at least `10^(len-1)`. -/
theorem decVal_ge (c : Char) (l : List Char) (hc : isDigit c = true) (h0 : c ≠ '0') :
    10 ^ l.length ≤ decVal (c :: l) := by
  rw [decVal_cons, digitVal_eq]
  have b := isDigit_bounds c hc
  have : c.toNat ≠ 48 := by
    intro h; apply h0
    have e := Char.ofNat_toNat c
    rw [h] at e
    exact e.symm
  have : 1 ≤ c.toNat - 48 := by omega
  have := Nat.mul_le_mul_right (10 ^ l.length) this
  omega

end NeoFS.Int256
