import NeoFS.Model.Put
import Mathlib.Data.List.Nodup
import Mathlib.Data.List.Perm.Basic
import Mathlib.Data.List.Count
/-! Loop invariants of `handleREPRule` and of the rule loops (for `Props/C25.lean`). -/
namespace NeoFS.Put

/-- number of positions of `l` holding an acknowledging node (= number of distinct acknowledging nodes of
`l` when `l` has no duplicates) -/
def ackCount (acks : List Node) (l : List Node) : Nat := l.countP (fun n => decide (n ∈ acks))

theorem ackCount_nil (acks : List Node) : ackCount acks [] = 0 := rfl

theorem ackCount_append (acks l₁ l₂ : List Node) : ackCount acks (l₁ ++ l₂) = ackCount acks l₁ + ackCount acks l₂ := by
  simp [ackCount, List.countP_append]

theorem ackCount_mono {acks acks' : List Node} (h : ∀ n ∈ acks, n ∈ acks') (l : List Node) :
    ackCount acks l ≤ ackCount acks' l := by
  unfold ackCount
  apply List.countP_mono_left
  intro x _ hx
  simp only [decide_eq_true_eq] at hx ⊢
  exact h x hx

theorem ackCount_single (acks : List Node) (n : Node) : ackCount acks [n] = if n ∈ acks then 1 else 0 := by
  unfold ackCount
  by_cases h : n ∈ acks <;> simp [h]

/-- a node of `l` that acknowledges for the first time adds one -/
theorem ackCount_cons_new (acks l : List Node) (n : Node) (hn : n ∈ l) (ha : n ∉ acks) :
    ackCount acks l + 1 ≤ ackCount (n :: acks) l := by
  induction l with
  | nil => simp at hn
  | cons x xs ih =>
    have e1 : ackCount acks (x :: xs) = ackCount acks [x] + ackCount acks xs := ackCount_append acks [x] xs
    have e2 : ackCount (n :: acks) (x :: xs) = ackCount (n :: acks) [x] + ackCount (n :: acks) xs :=
      ackCount_append (n :: acks) [x] xs
    have mono := ackCount_mono (acks := acks) (acks' := n :: acks) (fun m hm => List.mem_cons_of_mem _ hm)
    rw [e1, e2]
    by_cases hx : x = n
    · subst hx
      have a1 : ackCount acks [x] = 0 := by rw [ackCount_single]; simp [ha]
      have a2 : ackCount (x :: acks) [x] = 1 := by rw [ackCount_single]; simp
      have := mono xs
      omega
    · have hn' : n ∈ xs := by
        rcases List.mem_cons.mp hn with h | h
        · exact absurd h.symm hx
        · exact h
      have := ih hn'
      have := mono [x]
      omega

theorem ackCount_le_length (acks l : List Node) : ackCount acks l ≤ l.length := List.countP_le_length

/-- every acknowledging node is good, so the count is bounded by the good nodes of the list -/
theorem ackCount_le_good (f : Node → Bool) (acks l : List Node) (h : ∀ n ∈ acks, f n = true) :
    ackCount acks l ≤ l.countP f := by
  unfold ackCount
  apply List.countP_mono_left
  intro x _ hx
  simp only [decide_eq_true_eq] at hx
  exact h x hx

theorem lookup_cons' (n m : Node) (b : Bool) (rs : List (Node × Bool)) :
    List.lookup n ((m, b) :: rs) = if n = m then some b else List.lookup n rs := by
  by_cases h : n = m
  · subst h; simp [List.lookup_cons]
  · have : (n == m) = false := by simpa using h
    simp [List.lookup_cons, this, h]

/-- what `repProgress` guarantees about its node results and the acknowledgement log -/
structure Inv (f : Node → Bool) (g : G) : Prop where
  true_acked : ∀ n, g.results.lookup n = some true → n ∈ g.acks
  acked_known : ∀ n ∈ g.acks, g.results.lookup n ≠ none
  acked_good : ∀ n ∈ g.acks, f n = true

theorem Inv.init (f : Node → Bool) : Inv f {} := ⟨by simp, by simp, by simp⟩

/-- invariant of the group-building loop -/
structure CInv (acks pre rest : List Node) (rs : List (Node × Bool)) (st rem : Nat) (grp : List Node) (cap : Nat) : Prop where
  nodup : (pre ++ rest).Nodup
  A : ∀ n, rs.lookup n = some true → n ∈ acks
  B : ∀ n ∈ acks, rs.lookup n ≠ none
  cnt : st ≤ ackCount acks pre
  gsub : ∀ n ∈ grp, n ∈ pre ∧ n ∉ acks ∧ rs.lookup n = some false
  gnodup : grp.Nodup
  glen : grp.length ≤ rem
  hcap : st + rem ≤ cap

theorem collect_inv (acks : List Node) (cap : Nat) :
    ∀ (rest pre : List Node) (rs : List (Node × Bool)) (st rem : Nat) (grp : List Node)
      (rest' : List Node) (rs' : List (Node × Bool)) (st' : Nat) (grp' : List Node),
      CInv acks pre rest rs st rem grp cap →
      collect rest rs st rem grp = (rest', rs', st', grp') →
      ∃ pre' rem', CInv acks pre' rest' rs' st' rem' grp' cap ∧ pre' ++ rest' = pre ++ rest := by
  intro rest
  induction rest with
  | nil =>
    intro pre rs st rem grp rest' rs' st' grp' h hc
    simp only [collect, Prod.mk.injEq] at hc
    obtain ⟨rfl, rfl, rfl, rfl⟩ := hc
    exact ⟨pre, rem, h, rfl⟩
  | cons n rest ih =>
    intro pre rs st rem grp rest' rs' st' grp' h hc
    unfold collect at hc
    have hnd := h.nodup
    have hn_pre : n ∉ pre := by
      intro hp
      have := List.nodup_append.mp hnd
      exact this.2.2 n hp n (List.mem_cons_self) rfl
    have hnd' : ((pre ++ [n]) ++ rest).Nodup := by simpa using hnd
    have happ : (pre ++ [n]) ++ rest = pre ++ n :: rest := by simp
    split_ifs at hc with hlt
    · -- the node is examined
      cases hl : List.lookup n rs with
      | none =>
        rw [hl] at hc
        have hna : n ∉ acks := fun ha => h.B n ha hl
        have hinv : CInv acks (pre ++ [n]) rest ((n, false) :: rs) st rem (grp ++ [n]) cap := by
          refine ⟨hnd', ?_, ?_, ?_, ?_, ?_, ?_, h.hcap⟩
          · intro m hm
            rw [lookup_cons'] at hm
            split_ifs at hm with hmn
            · simp at hm
            · exact h.A m hm
          · intro m hm
            rw [lookup_cons']
            split_ifs
            · simp
            · exact h.B m hm
          · rw [ackCount_append]; have := h.cnt; omega
          · intro m hm
            rcases List.mem_append.mp hm with hm | hm
            · obtain ⟨h1, h2, h3⟩ := h.gsub m hm
              refine ⟨List.mem_append_left _ h1, h2, ?_⟩
              rw [lookup_cons']
              have : m ≠ n := fun e => hn_pre (e ▸ h1)
              simp [this, h3]
            · have : m = n := by simpa using hm
              subst this
              exact ⟨by simp, hna, by rw [lookup_cons']; simp⟩
          · rw [List.nodup_append]
            refine ⟨h.gnodup, by simp, ?_⟩
            intro a ha b hb
            have : b = n := by simpa using hb
            subst this
            intro e; subst e
            exact hn_pre (h.gsub a ha).1
          · simp; omega
        obtain ⟨pre', rem', hi, he⟩ := ih _ _ _ _ _ _ _ _ _ hinv hc
        exact ⟨pre', rem', hi, by rw [he, happ]⟩
      | some b =>
        rw [hl] at hc
        cases b with
        | true =>
          simp only at hc
          have hna : n ∈ acks := h.A n hl
          have hinv : CInv acks (pre ++ [n]) rest rs (st + 1) (rem - 1) grp cap := by
            refine ⟨hnd', h.A, h.B, ?_, ?_, h.gnodup, ?_, ?_⟩
            · rw [ackCount_append, ackCount_single]; simp [hna]; exact h.cnt
            · intro m hm
              obtain ⟨h1, h2, h3⟩ := h.gsub m hm
              exact ⟨List.mem_append_left _ h1, h2, h3⟩
            · omega
            · have := h.hcap; omega
          obtain ⟨pre', rem', hi, he⟩ := ih _ _ _ _ _ _ _ _ _ hinv hc
          exact ⟨pre', rem', hi, by rw [he, happ]⟩
        | false =>
          simp only at hc
          have hinv : CInv acks (pre ++ [n]) rest rs st rem grp cap := by
            refine ⟨hnd', h.A, h.B, ?_, ?_, h.gnodup, h.glen, h.hcap⟩
            · rw [ackCount_append]; have := h.cnt; omega
            · intro m hm
              obtain ⟨h1, h2, h3⟩ := h.gsub m hm
              exact ⟨List.mem_append_left _ h1, h2, h3⟩
          obtain ⟨pre', rem', hi, he⟩ := ih _ _ _ _ _ _ _ _ _ hinv hc
          exact ⟨pre', rem', hi, by rw [he, happ]⟩
    · simp only [Prod.mk.injEq] at hc
      obtain ⟨rfl, rfl, rfl, rfl⟩ := hc
      exact ⟨pre, rem, h, rfl⟩

/-- running one group in any order -/
theorem runGroup_inv (f : Node → Bool) (pre : List Node) :
    ∀ (order : List Node) (g : G) (st : Nat) (g' : G) (st' : Nat),
      Inv f g → st ≤ ackCount g.acks pre → order.Nodup →
      (∀ n ∈ order, n ∈ pre ∧ n ∉ g.acks) →
      runGroup f order g st = (g', st') →
      Inv f g' ∧ st' ≤ ackCount g'.acks pre ∧ (∀ n ∈ g.acks, n ∈ g'.acks) ∧ st' ≤ st + order.length ∧
        st ≤ st' ∧ g'.ecAcks = g.ecAcks := by
  intro order
  induction order with
  | nil =>
    intro g st g' st' hi hc _ _ hr
    simp only [runGroup, Prod.mk.injEq] at hr
    obtain ⟨rfl, rfl⟩ := hr
    exact ⟨hi, hc, fun _ h => h, by simp, Nat.le_refl _, rfl⟩
  | cons n ns ih =>
    intro g st g' st' hi hc hnd hsub hr
    unfold runGroup at hr
    simp only at hr
    obtain ⟨hn_pre, hn_acks⟩ := hsub n List.mem_cons_self
    have hnd' := (List.nodup_cons.mp hnd)
    by_cases hb : f n = true
    · simp only [hb, if_true] at hr
      have hi1 : Inv f { g with results := (n, true) :: g.results, asked := n :: g.asked, acks := n :: g.acks } := by
        refine ⟨?_, ?_, ?_⟩
        · intro m hm
          simp only at hm ⊢
          rw [lookup_cons'] at hm
          split_ifs at hm with e
          · subst e; simp
          · exact List.mem_cons_of_mem _ (hi.true_acked m hm)
        · intro m hm
          simp only at hm ⊢
          rw [lookup_cons']
          split_ifs with e
          · simp
          · rcases List.mem_cons.mp hm with h | h
            · exact absurd h e
            · exact hi.acked_known m h
        · intro m hm
          simp only at hm
          rcases List.mem_cons.mp hm with h | h
          · subst h; exact hb
          · exact hi.acked_good m h
      have hc1 : st + 1 ≤ ackCount (n :: g.acks) pre := by
        have := ackCount_cons_new g.acks pre n hn_pre hn_acks; omega
      have hsub1 : ∀ m ∈ ns, m ∈ pre ∧ m ∉ n :: g.acks := by
        intro m hm
        obtain ⟨h1, h2⟩ := hsub m (List.mem_cons_of_mem _ hm)
        refine ⟨h1, ?_⟩
        intro h
        rcases List.mem_cons.mp h with h | h
        · subst h; exact hnd'.1 hm
        · exact h2 h
      obtain ⟨r1, r2, r3, r4, r5, r6⟩ := ih _ _ _ _ hi1 hc1 hnd'.2 hsub1 hr
      refine ⟨r1, r2, fun m hm => r3 m (List.mem_cons_of_mem _ hm), by simp at r4 ⊢; omega, by omega, r6⟩
    · have hb' : f n = false := by simpa using hb
      simp only [hb', Bool.false_eq_true, if_false] at hr
      have hi1 : Inv f { g with results := (n, false) :: g.results, asked := n :: g.asked, acks := g.acks } := by
        refine ⟨?_, ?_, hi.acked_good⟩
        · intro m hm
          simp only at hm ⊢
          rw [lookup_cons'] at hm
          split_ifs at hm with e
          · simp at hm
          · exact hi.true_acked m hm
        · intro m hm
          simp only at hm ⊢
          rw [lookup_cons']
          split_ifs with e
          · simp
          · exact hi.acked_known m hm
      have hsub1 : ∀ m ∈ ns, m ∈ pre ∧ m ∉ g.acks := fun m hm => hsub m (List.mem_cons_of_mem _ hm)
      obtain ⟨r1, r2, r3, r4, r5, r6⟩ := ih _ _ _ _ hi1 hc hnd'.2 hsub1 hr
      exact ⟨r1, r2, r3, by simp at r4 ⊢; omega, r5, r6⟩

/-- `handleREPRule`: whatever the schedule of the parallel sends, the stored counter never exceeds the number
of acknowledging nodes of the (duplicate-free) list nor `maxReps`, and success means `maxReps` or
`minReps` was reached. -/
theorem handleREP_sound (f : Node → Bool) (sched : List Node → List Node) (hs : ∀ l, (sched l).Perm l)
    (mn mx : Nat) :
    ∀ (fuel : Nat) (pre rest : List Node) (g : G) (st : Nat) (g' : G) (st' : Nat) (failed : Bool),
      (pre ++ rest).Nodup → Inv f g → st ≤ ackCount g.acks pre → st ≤ mx →
      handleREP f sched mn mx fuel rest g st = (g', st', failed) →
      Inv f g' ∧ st' ≤ ackCount g'.acks (pre ++ rest) ∧ st' ≤ mx ∧ (∀ n ∈ g.acks, n ∈ g'.acks) ∧
        (failed = false → mx ≤ st' ∨ mn ≤ st') ∧ g'.ecAcks = g.ecAcks := by
  intro fuel
  induction fuel with
  | zero =>
    intro pre rest g st g' st' failed hnd hi hc hmx hr
    simp only [handleREP, Prod.mk.injEq] at hr
    obtain ⟨rfl, rfl, rfl⟩ := hr
    refine ⟨hi, ?_, hmx, fun _ h => h, by simp, rfl⟩
    rw [ackCount_append]; omega
  | succ fuel ih =>
    intro pre rest g st g' st' failed hnd hi hc hmx hr
    unfold handleREP at hr
    have hfin : st ≤ ackCount g.acks (pre ++ rest) := by rw [ackCount_append]; omega
    split_ifs at hr with h1 h2 h3
    · simp only [Prod.mk.injEq] at hr
      obtain ⟨rfl, rfl, rfl⟩ := hr
      exact ⟨hi, hfin, hmx, fun _ h => h, fun _ => Or.inl h1, rfl⟩
    · simp only [Prod.mk.injEq] at hr
      obtain ⟨rfl, rfl, rfl⟩ := hr
      exact ⟨hi, hfin, hmx, fun _ h => h, by simp, rfl⟩
    · simp only [Prod.mk.injEq] at hr
      obtain ⟨rfl, rfl, rfl⟩ := hr
      refine ⟨hi, hfin, hmx, fun _ h => h, fun _ => Or.inr ?_, rfl⟩
      have : rest.length = 0 := by simpa using h3
      omega
    · generalize hcol : collect rest g.results st (mx - st) [] = r at hr
      obtain ⟨rest', rs', st1, grp⟩ := r
      simp only at hr
      generalize hrg : runGroup f (sched grp) { g with results := rs' } st1 = r2 at hr
      obtain ⟨g2, st2⟩ := r2
      simp only at hr
      have hci : CInv g.acks pre rest g.results st (mx - st) [] mx :=
        ⟨hnd, hi.true_acked, hi.acked_known, hc, by simp, List.nodup_nil, by simp, by omega⟩
      obtain ⟨pre', rem', hci', hpre⟩ := collect_inv g.acks mx _ _ _ _ _ _ _ _ _ _ hci hcol
      have hperm := hs grp
      have hi1 : Inv f { g with results := rs' } := ⟨hci'.A, hci'.B, hi.acked_good⟩
      have hnd1 : (sched grp).Nodup := hperm.nodup_iff.mpr hci'.gnodup
      have hsub1 : ∀ n ∈ sched grp, n ∈ pre' ∧ n ∉ ({ g with results := rs' } : G).acks := by
        intro n hn
        obtain ⟨a, b, _⟩ := hci'.gsub n (hperm.mem_iff.mp hn)
        exact ⟨a, b⟩
      obtain ⟨q1, q2, q3, q4, q5, q6⟩ := runGroup_inv f pre' _ _ _ _ _ hi1 hci'.cnt hnd1 hsub1 hrg
      have hlen : (sched grp).length = grp.length := hperm.length_eq
      have hmx2 : st2 ≤ mx := by have := hci'.glen; have := hci'.hcap; omega
      have hnd2 : (pre' ++ rest').Nodup := by rw [hpre]; exact hnd
      obtain ⟨z1, z2, z3, z4, z5, z6⟩ := ih pre' rest' g2 st2 g' st' failed hnd2 q1 q2 hmx2 hr
      refine ⟨z1, by rw [← hpre]; exact z2, z3, fun n hn => z4 n (q3 n hn), z5, by rw [z6, q6]⟩

theorem repRule_sound (f : Node → Bool) (sched : List Node → List Node) (hs : ∀ l, (sched l).Perm l)
    (mn mx : Nat) (list : List Node) (g g' : G) (st' : Nat) (failed : Bool)
    (hnd : list.Nodup) (hi : Inv f g) (hr : repRule f sched mn mx list g = (g', st', failed)) :
    Inv f g' ∧ st' ≤ ackCount g'.acks list ∧ st' ≤ mx ∧ (∀ n ∈ g.acks, n ∈ g'.acks) ∧
      (failed = false → mx ≤ st' ∨ mn ≤ st') ∧ g'.ecAcks = g.ecAcks := by
  have := handleREP_sound f sched hs mn mx (list.length + 1) [] list g 0 g' st' failed (by simpa using hnd) hi
    (by simp) (by omega) hr
  simpa using this

end NeoFS.Put
