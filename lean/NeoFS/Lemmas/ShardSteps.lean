import NeoFS.Model.ShardSteps
/-!
Invariant of the shard step model and its preservation by every atomic step that is *safe* in the state in
which it executes; every operation's step list is safe from every state that satisfies the invariant.
(Helper lemmas of Props/C15.lean and Props/C09.lean.)
-/
namespace NeoFS.ShardSteps

/-- every stored value is the object of its address (ids are content hashes) -/
def RightIn (content : Nat → Body) (m : Nat → Option Body) : Prop := ∀ a b, m a = some b → b = content a

/-- the crash-consistency invariant: whatever is indexed and not exempt (marked for removal with the default
mark, or expired) has its bytes in the main storage or in the write-cache -/
structure Inv (content : Nat → Body) (s : St) : Prop where
  blobRight : RightIn content s.blob
  wcRight : RightIn content s.wc
  data : ∀ a, indexed s a = true → s.garb a = some .dflt ∨ expiredNow s a = true ∨ hasData s a = true
  tomb : ∀ a, indexed s a = true → tombstoned s a = true → s.garb a = some .dflt
  bkt : s.hasBkt = false → ∀ a, s.idx a = none

/-- the metabase does not (or no longer) present `a` as available, whatever the stores hold -/
def exempt (s : St) (a : Nat) : Prop := indexed s a = false ∨ s.garb a = some .dflt ∨ expiredNow s a = true

/-- when a step may be executed without endangering the invariant -/
def Safe (content : Nat → Body) (s : St) : Step → Prop
  | .blobPut a b => b = content a
  | .wcPut a b => b = content a
  | .metaPut a _ => hasData s a = true
  | .wcDel a => exempt s a ∨ (s.blob a).isSome = true
  | .blobDel a => exempt s a ∨ (s.wc a).isSome = true
  | _ => True

def SafeList (content : Nat → Body) : St → List Step → Prop
  | _, [] => True
  | s, x :: xs => Safe content s x ∧ SafeList content (applyStep s x) xs

@[simp] theorem upd_same {β : Type} (f : Nat → β) (a : Nat) (v : β) : upd f a v a = v := by simp [upd]
theorem upd_other {β : Type} (f : Nat → β) {a x : Nat} (v : β) (h : x ≠ a) : upd f a v x = f x := by simp [upd, h]

theorem tombstoned_mono {s s' : St} {a : Nat}
    (h : ∀ t, tsTargets (s'.idx t) a = true → tsTargets (s.idx t) a = true) :
    tombstoned s' a = true → tombstoned s a = true := by
  unfold tombstoned
  simp only [List.any_eq_true]
  rintro ⟨t, ht, h1⟩
  exact ⟨t, ht, h t h1⟩

theorem status_not_removed {s : St} {a : Nat} (h1 : status s a ≠ .expired) (h2 : status s a ≠ .tombstoned) :
    expiredNow s a = false ∧ tombstoned s a = false := by
  unfold status at h1 h2
  cases he : expiredNow s a <;> cases ht : tombstoned s a <;> simp_all

theorem insertObj_fields (s : St) (a : Nat) (k : Kind) :
    (insertObj s a k).1.blob = s.blob ∧ (insertObj s a k).1.wc = s.wc ∧ (insertObj s a k).1.epoch = s.epoch := by
  cases k with
  | reg => simp [insertObj]
  | ts tg x => simp only [insertObj]; split <;> simp

theorem metaPut_fields (s : St) (a : Nat) (k : Kind) :
    (metaPut s a k).1.blob = s.blob ∧ (metaPut s a k).1.wc = s.wc ∧ (metaPut s a k).1.epoch = s.epoch := by
  unfold metaPut
  split
  · simp
  · split
    · simp
    · split
      · simp
      · exact insertObj_fields s a k

theorem metaPut_blob (s : St) (a : Nat) (k : Kind) : (metaPut s a k).1.blob = s.blob := (metaPut_fields s a k).1
theorem metaPut_wc (s : St) (a : Nat) (k : Kind) : (metaPut s a k).1.wc = s.wc := (metaPut_fields s a k).2.1

theorem insertObj_inv {content : Nat → Body} {s : St} (a : Nat) (k : Kind) (hI : Inv content s)
    (hd : hasData s a = true) (hni : indexed s a = false) (hnt : tombstoned s a = false) :
    Inv content (insertObj s a k).1 := by
  cases k with
  | reg =>
    simp only [insertObj]
    refine ⟨hI.blobRight, hI.wcRight, ?_, ?_, by simp⟩
    · intro x hx
      by_cases hxa : x = a
      · subst hxa; exact Or.inr (Or.inr hd)
      · have hix : indexed s x = true := by simpa [indexed, upd_other _ _ hxa] using hx
        rcases hI.data x hix with h | h | h
        · exact Or.inl h
        · exact Or.inr (Or.inl (by simpa [expiredNow, upd_other _ _ hxa] using h))
        · exact Or.inr (Or.inr h)
    · intro x hx ht
      have htm : tombstoned s x = true := by
        refine tombstoned_mono (s := s) ?_ ht
        intro t
        by_cases hta : t = a
        · subst hta; simp [tsTargets]
        · simp [upd_other _ _ hta]
      by_cases hxa : x = a
      · subst hxa; rw [hnt] at htm; exact absurd htm (by simp)
      · have hix : indexed s x = true := by simpa [indexed, upd_other _ _ hxa] using hx
        exact hI.tomb x hix htm
  | ts tg x0 =>
    simp only [insertObj]
    split
    · exact hI
    · refine ⟨hI.blobRight, hI.wcRight, ?_, ?_, by simp⟩
      · intro x hx
        by_cases hxa : x = a
        · subst hxa; exact Or.inr (Or.inr hd)
        · have hix : indexed s x = true := by simpa [indexed, upd_other _ _ hxa] using hx
          by_cases hxt : x = tg
          · subst hxt; exact Or.inl (by simp)
          · rcases hI.data x hix with h | h | h
            · exact Or.inl (by simpa [upd_other _ _ hxt] using h)
            · exact Or.inr (Or.inl (by simpa [expiredNow, upd_other _ _ hxa] using h))
            · exact Or.inr (Or.inr h)
      · intro x hx ht
        by_cases hxt : x = tg
        · subst hxt; simp
        · have htm : tombstoned s x = true := by
            refine tombstoned_mono (s := s) ?_ ht
            intro t
            by_cases hta : t = a
            · subst hta
              intro h
              simp [tsTargets] at h
              exact absurd h.symm hxt
            · simp [upd_other _ _ hta]
          by_cases hxa : x = a
          · subst hxa; rw [hnt] at htm; exact absurd htm (by simp)
          · have hix : indexed s x = true := by simpa [indexed, upd_other _ _ hxa] using hx
            simpa [upd_other _ _ hxt] using hI.tomb x hix htm

/-- the metabase put of one object keeps the invariant when the object's bytes are stored -/
theorem metaPut_inv {content : Nat → Body} {s : St} (a : Nat) (k : Kind) (hI : Inv content s)
    (hd : hasData s a = true) : Inv content (metaPut s a k).1 := by
  unfold metaPut
  split
  · exact hI
  · split
    · exact hI
    · rename_i hne1 hne2
      split
      · exact hI
      · rename_i hni
        exact insertObj_inv a k hI hd (by simpa using hni) (status_not_removed hne1 hne2).2

theorem markOne_keeps_dflt (m : Mark) (g : Nat → Option Mark) (a x : Nat) (h : g x = some .dflt) :
    markOne m g a x = some .dflt := by
  simp only [markOne]
  split
  · exact h
  · rename_i hn
    by_cases hx : x = a
    · subst hx; exact absurd h hn
    · simp [upd_other _ _ hx, h]

theorem foldl_markOne_keeps_dflt (m : Mark) (ids : List Nat) : ∀ (g : Nat → Option Mark) (x : Nat),
    g x = some .dflt → ids.foldl (markOne m) g x = some .dflt := by
  induction ids with
  | nil => intro g x h; exact h
  | cons a rest ih => intro g x h; exact ih _ x (markOne_keeps_dflt m g a x h)

theorem markOne_sets_dflt (g : Nat → Option Mark) (a : Nat) : markOne .dflt g a a = some .dflt := by
  simp only [markOne]
  split
  · assumption
  · simp

theorem foldl_markOne_sets_dflt (ids : List Nat) : ∀ (g : Nat → Option Mark) (x : Nat),
    x ∈ ids → ids.foldl (markOne .dflt) g x = some .dflt := by
  induction ids with
  | nil => intro g x h; simp at h
  | cons a rest ih =>
    intro g x h
    simp only [List.foldl_cons]
    rcases List.mem_cons.mp h with rfl | h
    · exact foldl_markOne_keeps_dflt _ _ _ _ (markOne_sets_dflt g x)
    · exact ih _ x h

/-- `PutBatch` over what the main storage holds keeps the invariant -/
theorem putBatch_inv {content : Nat → Body} (blob0 : Nat → Option Body) (order : List Nat) :
    ∀ (s s' : St), Inv content s → s.blob = blob0 → putBatch s blob0 order = some s' → Inv content s' := by
  induction order with
  | nil => intro s s' hI _ h; simp [putBatch] at h; subst h; exact hI
  | cons a rest ih =>
    intro s s' hI hb h
    unfold putBatch at h
    split at h
    · exact ih s s' hI hb h
    · rename_i b hba
      have hd : hasData s a = true := by simp [hasData, hb, hba]
      split at h
      · exact absurd h (by simp)
      · refine ih _ s' (metaPut_inv a b.kind hI hd) ?_ h
        rw [metaPut_blob]; exact hb

/-- every safe step preserves the invariant -/
theorem inv_step {content : Nat → Body} {s : St} (st : Step) (hI : Inv content s) (hs : Safe content s st) :
    Inv content (applyStep s st) := by
  cases st with
  | blobPut a b =>
    have hb : b = content a := hs
    refine ⟨?_, hI.wcRight, ?_, hI.tomb, hI.bkt⟩
    · intro x y hxy
      by_cases hx : x = a
      · subst hx; simp [applyStep] at hxy; rw [← hxy]; exact hb
      · exact hI.blobRight x y (by simpa [applyStep, upd_other _ _ hx] using hxy)
    · intro x hx
      rcases hI.data x hx with h | h | h
      · exact Or.inl h
      · exact Or.inr (Or.inl h)
      · refine Or.inr (Or.inr ?_)
        by_cases hxa : x = a
        · subst hxa; simp [hasData, applyStep]
        · simpa [hasData, applyStep, upd_other _ _ hxa] using h
  | wcPut a b =>
    have hb : b = content a := hs
    refine ⟨hI.blobRight, ?_, ?_, hI.tomb, hI.bkt⟩
    · intro x y hxy
      by_cases hx : x = a
      · subst hx; simp [applyStep] at hxy; rw [← hxy]; exact hb
      · exact hI.wcRight x y (by simpa [applyStep, upd_other _ _ hx] using hxy)
    · intro x hx
      rcases hI.data x hx with h | h | h
      · exact Or.inl h
      · exact Or.inr (Or.inl h)
      · refine Or.inr (Or.inr ?_)
        by_cases hxa : x = a
        · subst hxa; simp [hasData, applyStep]
        · simpa [hasData, applyStep, upd_other _ _ hxa] using h
  | metaPut a k => exact metaPut_inv a k hI hs
  | metaDelete ids =>
    refine ⟨hI.blobRight, hI.wcRight, ?_, ?_, ?_⟩
    · intro x hx
      have hx' : x ∉ ids ∧ indexed s x = true := by
        simp only [indexed, applyStep] at hx
        by_cases hm : x ∈ ids
        · simp [hm] at hx
        · simp [hm] at hx; exact ⟨hm, by simpa [indexed] using hx⟩
      rcases hI.data x hx'.2 with h | h | h
      · exact Or.inl (by simpa [applyStep, hx'.1] using h)
      · exact Or.inr (Or.inl (by simpa [expiredNow, applyStep, hx'.1] using h))
      · exact Or.inr (Or.inr h)
    · intro x hx ht
      have hx' : x ∉ ids ∧ indexed s x = true := by
        simp only [indexed, applyStep] at hx
        by_cases hm : x ∈ ids
        · simp [hm] at hx
        · simp [hm] at hx; exact ⟨hm, by simpa [indexed] using hx⟩
      have htm : tombstoned s x = true := by
        refine tombstoned_mono (s := s) ?_ ht
        intro t
        simp only [applyStep]
        by_cases hm : t ∈ ids
        · simp [hm, tsTargets]
        · simp [hm]
      simpa [applyStep, hx'.1] using hI.tomb x hx'.2 htm
    · intro hb x
      simp only [applyStep]
      by_cases hm : x ∈ ids
      · simp [hm]
      · simp [hm]; exact hI.bkt hb x
  | metaMark ids m =>
    simp only [applyStep]
    split
    · refine ⟨hI.blobRight, hI.wcRight, ?_, ?_, hI.bkt⟩
      · intro x hx
        rcases hI.data x hx with h | h | h
        · exact Or.inl (foldl_markOne_keeps_dflt m ids s.garb x h)
        · exact Or.inr (Or.inl h)
        · exact Or.inr (Or.inr h)
      · intro x hx ht
        exact foldl_markOne_keeps_dflt m ids s.garb x (hI.tomb x hx ht)
    · exact hI
  | wcDel a =>
    refine ⟨hI.blobRight, ?_, ?_, hI.tomb, hI.bkt⟩
    · intro x y hxy
      by_cases hx : x = a
      · subst hx; simp [applyStep] at hxy
      · exact hI.wcRight x y (by simpa [applyStep, upd_other _ _ hx] using hxy)
    · intro x hx
      by_cases hxa : x = a
      · subst hxa
        have hx0 : indexed s x = true := hx
        rcases hs with (h | h | h) | h
        · rw [h] at hx0; exact absurd hx0 (by simp)
        · exact Or.inl h
        · exact Or.inr (Or.inl h)
        · exact Or.inr (Or.inr (by simp [hasData, applyStep, h]))
      · rcases hI.data x hx with h | h | h
        · exact Or.inl h
        · exact Or.inr (Or.inl h)
        · exact Or.inr (Or.inr (by simpa [hasData, applyStep, upd_other _ _ hxa] using h))
  | blobDel a =>
    refine ⟨?_, hI.wcRight, ?_, hI.tomb, hI.bkt⟩
    · intro x y hxy
      by_cases hx : x = a
      · subst hx; simp [applyStep] at hxy
      · exact hI.blobRight x y (by simpa [applyStep, upd_other _ _ hx] using hxy)
    · intro x hx
      by_cases hxa : x = a
      · subst hxa
        have hx0 : indexed s x = true := hx
        rcases hs with (h | h | h) | h
        · rw [h] at hx0; exact absurd hx0 (by simp)
        · exact Or.inl h
        · exact Or.inr (Or.inl h)
        · exact Or.inr (Or.inr (by simp [hasData, applyStep, h]))
      · rcases hI.data x hx with h | h | h
        · exact Or.inl h
        · exact Or.inr (Or.inl h)
        · exact Or.inr (Or.inr (by simpa [hasData, applyStep, upd_other _ _ hxa] using h))
  | flushCopy a =>
    simp only [applyStep]
    split
    · rename_i b hb
      refine ⟨?_, hI.wcRight, ?_, hI.tomb, hI.bkt⟩
      · intro x y hxy
        by_cases hx : x = a
        · subst hx; simp at hxy; rw [← hxy]; exact hI.wcRight x b hb
        · exact hI.blobRight x y (by simpa [upd_other _ _ hx] using hxy)
      · intro x hx
        rcases hI.data x hx with h | h | h
        · exact Or.inl h
        · exact Or.inr (Or.inl h)
        · refine Or.inr (Or.inr ?_)
          by_cases hxa : x = a
          · subst hxa; simp [hasData]
          · simpa [hasData, upd_other _ _ hxa] using h
    · exact hI
  | metaReset =>
    exact ⟨hI.blobRight, hI.wcRight, by intro x hx; simp [indexed, applyStep] at hx,
      by intro x hx; simp [indexed, applyStep] at hx, by intro _ x; simp [applyStep]⟩
  | resyncBatch order =>
    simp only [applyStep]
    cases h : putBatch s s.blob order with
    | none => simpa using hI
    | some s' => simpa using putBatch_inv s.blob order s s' hI rfl h

theorem applySteps_append (s : St) (l1 l2 : List Step) :
    applySteps s (l1 ++ l2) = applySteps (applySteps s l1) l2 := by
  simp [applySteps, List.foldl_append]

theorem safeList_append {content : Nat → Body} : ∀ (l1 l2 : List Step) (s : St),
    SafeList content s l1 → SafeList content (applySteps s l1) l2 → SafeList content s (l1 ++ l2) := by
  intro l1
  induction l1 with
  | nil => intro l2 s _ h; simpa [applySteps] using h
  | cons x xs ih =>
    intro l2 s h1 h2
    exact ⟨h1.1, ih l2 _ h1.2 (by simpa [applySteps] using h2)⟩

theorem safeList_take {content : Nat → Body} : ∀ (l : List Step) (s : St) (k : Nat),
    SafeList content s l → SafeList content s (l.take k) := by
  intro l
  induction l with
  | nil => intro s k h; simpa using h
  | cons x xs ih =>
    intro s k h
    cases k with
    | zero => simp [SafeList]
    | succ k => exact ⟨h.1, ih _ k h.2⟩

/-- a safe step list keeps the invariant -/
theorem inv_steps {content : Nat → Body} : ∀ (l : List Step) (s : St),
    Inv content s → SafeList content s l → Inv content (applySteps s l) := by
  intro l
  induction l with
  | nil => intro s h _; simpa [applySteps] using h
  | cons x xs ih =>
    intro s hI hS
    simpa [applySteps] using ih (applyStep s x) (inv_step x hI hS.1) hS.2

/-- cache and blob deletions of addresses the metabase does not present: safe in any order, however many -/
def IsDelOf (P : Nat → Prop) : Step → Prop
  | .wcDel a => P a
  | .blobDel a => P a
  | _ => False

theorem exempt_after_del {s : St} {x : Step} {P : Nat → Prop} (hx : IsDelOf P x) (a : Nat) :
    exempt (applyStep s x) a ↔ exempt s a := by
  cases x <;> simp [IsDelOf] at hx <;> simp [exempt, indexed, expiredNow, applyStep]

theorem safeList_dels {content : Nat → Body} : ∀ (l : List Step) (s : St),
    (∀ x ∈ l, IsDelOf (exempt s) x) → SafeList content s l := by
  intro l
  induction l with
  | nil => intro s _; trivial
  | cons x xs ih =>
    intro s h
    have hx := h x (by simp)
    refine ⟨?_, ih _ ?_⟩
    · cases x <;> simp [IsDelOf] at hx <;> exact Or.inl hx
    · intro y hy
      have := h y (by simp [hy])
      cases y <;> simp [IsDelOf] at this ⊢ <;> exact (exempt_after_del hx _).mpr this

end NeoFS.ShardSteps
