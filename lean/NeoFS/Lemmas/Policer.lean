import NeoFS.Model.Policer
import Mathlib.Data.List.Nodup
import Mathlib.Data.List.Perm.Subperm
/-! Invariants of the node loop of `processNodes`, of `HandleTask` and of the EC part loop (for `Props/C26.lean`). -/
namespace NeoFS.Policer

/-! ### the replicator -/

theorem sendLoop_sound (e : Env) (q : Nat) (nodes : List Nat) :
    (sendLoop e q nodes).length ≤ q ∧
      ∀ n ∈ sendLoop e q nodes, n ∈ nodes ∧ n ≠ e.me ∧ e.repl n = true := by
  induction nodes generalizing q with
  | nil => simp [sendLoop]
  | cons a as ih =>
    unfold sendLoop
    split_ifs with h0 h1 h2
    · simp
    · obtain ⟨l, m⟩ := ih q
      exact ⟨l, fun n hn => ⟨List.mem_cons_of_mem _ (m n hn).1, (m n hn).2⟩⟩
    · obtain ⟨l, m⟩ := ih (q - 1)
      refine ⟨by simp only [List.length_cons]; omega, ?_⟩
      intro n hn
      rcases List.mem_cons.mp hn with rfl | hn
      · exact ⟨List.mem_cons_self, h1, h2⟩
      · exact ⟨List.mem_cons_of_mem _ (m n hn).1, (m n hn).2⟩
    · obtain ⟨l, m⟩ := ih q
      exact ⟨l, fun n hn => ⟨List.mem_cons_of_mem _ (m n hn).1, (m n hn).2⟩⟩

theorem handleTask_sound (e : Env) (q : Nat) (nodes : List Nat) :
    (handleTask e q nodes).length ≤ q ∧
      ∀ n ∈ handleTask e q nodes, n ∈ nodes ∧ n ≠ e.me ∧ e.repl n = true := by
  unfold handleTask
  split_ifs
  · exact sendLoop_sound e q nodes
  · simp

/-! ### monotonicity of the context through a pass -/

theorem replicate_need (e : Env) (c : Ctx) (q : Nat) (ns : List Nat) : (replicate e c q ns).need = c.need := rfl
theorem replicate_inCnr (e : Env) (c : Ctx) (q : Nat) (ns : List Nat) : (replicate e c q ns).inCnr = c.inCnr := rfl
theorem replicate_heads (e : Env) (c : Ctx) (q : Nat) (ns : List Nat) : (replicate e c q ns).heads = c.heads := rfl
theorem replicate_unchk (e : Env) (c : Ctx) (q : Nat) (ns : List Nat) : (replicate e c q ns).unchk = c.unchk := rfl

theorem dec32_of_ne_zero {n : Nat} (h : n ≠ 0) : dec32 n = n - 1 := by
  unfold dec32; simp [h]

theorem dec32_le {n : Nat} (h : ¬ n = 0) : dec32 n ≤ n := by
  rw [dec32_of_ne_zero h]; omega

/-- what one loop iteration may change -/
structure StepMono (c c' : Ctx) (l l' : Loop) : Prop where
  need : c.need = true → c'.need = true
  heads : ∀ n ∈ c.heads, n ∈ c'.heads
  unchecked : l.unchecked ≤ l'.unchecked
  shortage : l'.shortage ≤ l.shortage
  tasks : c'.tasks = c.tasks

theorem nodeStep_mono (e : Env) (c : Ctx) (l : Loop) (n : Nat) :
    StepMono c (nodeStep e c l n).1 l (nodeStep e c l n).2 := by
  unfold nodeStep
  simp only
  split_ifs
  · exact ⟨fun h => h, fun _ h => h, Nat.le_refl _, Nat.le_refl _, rfl⟩
  · exact ⟨fun _ => rfl, fun _ h => h, Nat.le_refl _, dec32_le (by assumption), rfl⟩
  · exact ⟨fun h => h, fun _ h => h, by simp [onMaint], dec32_le (by assumption), rfl⟩
  · split
    · exact ⟨fun h => h, fun _ h => h, Nat.le_refl _, Nat.le_refl _, rfl⟩
    · exact ⟨fun h => h, fun _ h => h, Nat.le_refl _, Nat.le_refl _, rfl⟩
    · split
      · exact ⟨fun h => h, fun _ h => by simp [h], Nat.le_refl _, Nat.le_refl _, rfl⟩
      · exact ⟨fun h => h, fun _ h => by simp [onMaint, h], by simp [onMaint], dec32_le (by assumption), rfl⟩
      · exact ⟨fun h => h, fun _ h => by simp [h], Nat.le_refl _, Nat.le_refl _, rfl⟩
      · exact ⟨fun h => h, fun _ h => by simp [h], Nat.le_refl _, dec32_le (by assumption), rfl⟩

theorem walk_mono (e : Env) (ns : List Nat) (c : Ctx) (l : Loop) :
    StepMono c (walk e c l ns).1 l (walk e c l ns).2 := by
  induction ns generalizing c l with
  | nil => exact ⟨fun h => h, fun _ h => h, Nat.le_refl _, Nat.le_refl _, rfl⟩
  | cons a as ih =>
    unfold walk
    split_ifs
    · exact ⟨fun h => h, fun _ h => h, Nat.le_refl _, Nat.le_refl _, rfl⟩
    · have s := nodeStep_mono e c l a
      have r := ih (nodeStep e c l a).1 (nodeStep e c l a).2
      exact ⟨fun h => r.need (s.need h), fun n h => r.heads n (s.heads n h), Nat.le_trans s.unchecked r.unchecked,
        Nat.le_trans r.shortage s.shortage, r.tasks.trans s.tasks⟩

theorem finish_need (e : Env) (legacy : Bool) (c : Ctx) (l : Loop) : c.need = true → (finish e legacy c l).need = true := by
  intro h
  unfold finish
  split_ifs <;> simp [replicate_need, h]

theorem finish_heads (e : Env) (legacy : Bool) (c : Ctx) (l : Loop) : (finish e legacy c l).heads = c.heads := by
  unfold finish
  split_ifs <;> simp [replicate_heads]

theorem finish_inCnr (e : Env) (legacy : Bool) (c : Ctx) (l : Loop) : (finish e legacy c l).inCnr = c.inCnr := by
  unfold finish
  split_ifs <;> simp [replicate_inCnr]

theorem processNodes_need (e : Env) (legacy : Bool) (t : OType) (c : Ctx) (ns : List Nat) (k : Nat) :
    c.need = true → (processNodes e legacy t c ns k).need = true :=
  fun h => finish_need e legacy _ _ ((walk_mono e ns c _).need h)

theorem processNodes_heads (e : Env) (legacy : Bool) (t : OType) (c : Ctx) (ns : List Nat) (k : Nat) :
    ∀ n ∈ c.heads, n ∈ (processNodes e legacy t c ns k).heads := by
  intro n h
  unfold processNodes
  rw [finish_heads]
  exact (walk_mono e ns c _).heads n h

theorem runVectors_need (e : Env) (legacy : Bool) (t : OType) (vs : List (List Nat × Nat)) (c : Ctx) :
    c.need = true → (runVectors e legacy t c vs).need = true := by
  induction vs generalizing c with
  | nil => exact fun h => h
  | cons v vs ih => exact fun h => ih _ (processNodes_need e legacy t c v.1 v.2 h)

theorem runVectors_heads (e : Env) (legacy : Bool) (t : OType) (vs : List (List Nat × Nat)) (c : Ctx) :
    ∀ n ∈ c.heads, n ∈ (runVectors e legacy t c vs).heads := by
  induction vs generalizing c with
  | nil => exact fun _ h => h
  | cons v vs ih => exact fun n h => ih _ n (processNodes_heads e legacy t c v.1 v.2 n h)

/-! ### the local node is reached only with the shortage covered -/

theorem walk_zero (e : Env) (ns : List Nat) (c : Ctx) (l : Loop) (h : l.shortage = 0) :
    (walk e c l ns).2.shortage = 0 :=
  Nat.le_zero.mp (h ▸ (walk_mono e ns c l).shortage)

/-- if the list contains the local node and the local copy is not declared needed, the shortage was covered -/
theorem walk_local (e : Env) (ns : List Nat) (c : Ctx) (l : Loop) (hm : e.me ∈ ns)
    (hn : (walk e c l ns).1.need = false) : (walk e c l ns).2.shortage = 0 := by
  induction ns generalizing c l with
  | nil => simp at hm
  | cons a as ih =>
    unfold walk at hn ⊢
    split_ifs at hn ⊢ with hstop
    · simp only [Bool.and_eq_true, decide_eq_true_eq] at hstop
      exact hstop.2
    · by_cases ha : a = e.me
      · dsimp only at hn ⊢
        by_cases hz : l.shortage = 0
        · have : (nodeStep e c l a).2.shortage = 0 := Nat.le_zero.mp (hz ▸ (nodeStep_mono e c l a).shortage)
          exact walk_zero e as _ _ this
        · exfalso
          have : (nodeStep e c l a).1.need = true := by
            unfold nodeStep
            simp [hz, ha]
          have := (walk_mono e as (nodeStep e c l a).1 (nodeStep e c l a).2).need this
          rw [this] at hn
          exact Bool.noConfusion hn
      · have : e.me ∈ as := by
          rcases List.mem_cons.mp hm with h | h
          · exact absurd h.symm ha
          · exact h
        exact ih _ _ this hn

/-! ### every unit of covered shortage is a distinct node whose header was read -/

/-- a node whose header was read in this pass -/
def HeadOK (e : Env) (heads : List Nat) (n : Nat) : Prop :=
  n ≠ e.me ∧ e.flag n = false ∧ e.ans n = .holds ∧ n ∈ heads

/-- the witnesses collected so far: distinct, cached as holders, headers read -/
structure Wit (e : Env) (c : Ctx) (D : List Nat) : Prop where
  nodup : D.Nodup
  cached : ∀ n ∈ D, cacheGet c.cache n = some true
  ok : ∀ n ∈ D, HeadOK e c.heads n

theorem cacheGet_cons_ne (c : List (Nat × Bool)) (a n : Nat) (b : Bool) (h : n ≠ a) :
    cacheGet ((a, b) :: c) n = cacheGet c n := by
  unfold cacheGet
  rw [List.find?_cons_of_neg]
  simp [Ne.symm h]

theorem cacheGet_cons_self (c : List (Nat × Bool)) (a : Nat) (b : Bool) :
    cacheGet ((a, b) :: c) a = some b := by
  unfold cacheGet
  simp

/-- the context with the container flag updated, as every loop iteration leaves it at least -/
def seen (e : Env) (c : Ctx) (n : Nat) : Ctx := { c with inCnr := c.inCnr || decide (n = e.me) }

theorem nodeStep_zero (e : Env) (c : Ctx) (l : Loop) (n : Nat) (h0 : l.shortage = 0) :
    nodeStep e c l n = (seen e c n, l) := by
  simp [nodeStep, seen, h0]

theorem nodeStep_local (e : Env) (c : Ctx) (l : Loop) (n : Nat) (h0 : l.shortage ≠ 0) (hl : n = e.me) :
    (nodeStep e c l n).1.need = true := by
  simp [nodeStep, h0, hl]

theorem nodeStep_flag (e : Env) (c : Ctx) (l : Loop) (n : Nat) (h0 : l.shortage ≠ 0) (hl : n ≠ e.me)
    (hf : e.flag n = true) : nodeStep e c l n = onMaint (seen e c n) l n := by
  simp [nodeStep, seen, h0, hl, hf]

theorem nodeStep_cached (e : Env) (c : Ctx) (l : Loop) (n : Nat) (b : Bool) (h0 : l.shortage ≠ 0) (hl : n ≠ e.me)
    (hf : e.flag n = false) (hc : cacheGet c.cache n = some b) :
    nodeStep e c l n = (seen e c n, if b then l else { l with cands := l.cands ++ [n] }) := by
  cases b <;> simp [nodeStep, seen, h0, hl, hf, hc]

theorem nodeStep_head (e : Env) (c : Ctx) (l : Loop) (n : Nat) (h0 : l.shortage ≠ 0) (hl : n ≠ e.me)
    (hf : e.flag n = false) (hc : cacheGet c.cache n = none) :
    nodeStep e c l n =
      let c1 : Ctx := { seen e c n with heads := c.heads ++ [n] }
      match e.ans n with
      | .notFound => ({ c1 with cache := (n, false) :: c.cache }, { l with cands := l.cands ++ [n] })
      | .maint => onMaint c1 l n
      | .err => (c1, l)
      | .holds => ({ c1 with cache := (n, true) :: c.cache }, { l with shortage := l.shortage - 1 }) := by
  simp only [nodeStep, seen, h0, hl, hf, hc, if_false, Bool.false_eq_true]
  cases e.ans n
  all_goals first
    | rfl
    | simp only [dec32_of_ne_zero h0]

/-- one loop iteration keeps the witnesses, or adds the node and lowers the shortage by one -/
theorem nodeStep_wit (e : Env) (c : Ctx) (l : Loop) (a : Nat) (D : List Nat) (w : Wit e c D)
    (hn1 : (nodeStep e c l a).1.need = false) (hu1 : (nodeStep e c l a).2.unchecked = l.unchecked) :
    ∃ D1, Wit e (nodeStep e c l a).1 D1 ∧
      D1.length + (nodeStep e c l a).2.shortage = D.length + l.shortage ∧ ∀ n ∈ D1, n ∈ D ∨ n = a := by
  have keep : ∀ c' : Ctx, c'.cache = c.cache → (∀ n ∈ c.heads, n ∈ c'.heads) → Wit e c' D := fun c' hc hh =>
    ⟨w.nodup, fun n hn => hc ▸ w.cached n hn, fun n hn =>
      ⟨(w.ok n hn).1, (w.ok n hn).2.1, (w.ok n hn).2.2.1, hh n (w.ok n hn).2.2.2⟩⟩
  by_cases h0 : l.shortage = 0
  · rw [nodeStep_zero e c l a h0]
    exact ⟨D, keep _ rfl (fun _ h => h), rfl, fun n h => Or.inl h⟩
  by_cases hl : a = e.me
  · rw [nodeStep_local e c l a h0 hl] at hn1
    exact Bool.noConfusion hn1
  cases hf : e.flag a with
  | true =>
    rw [nodeStep_flag e c l a h0 hl hf] at hu1
    simp [onMaint] at hu1
  | false =>
    cases hc : cacheGet c.cache a with
    | some b =>
      rw [nodeStep_cached e c l a b h0 hl hf hc]
      refine ⟨D, keep _ rfl (fun _ h => h), ?_, fun n h => Or.inl h⟩
      cases b <;> rfl
    | none =>
      have hne : ∀ n ∈ D, n ≠ a := by
        intro n hn' heq
        have := w.cached n hn'
        rw [heq, hc] at this
        cases this
      have hcons : ∀ (b : Bool), ∀ n ∈ D, cacheGet ((a, b) :: c.cache) n = some true := fun b n hn' => by
        rw [cacheGet_cons_ne _ _ _ _ (hne n hn')]
        exact w.cached n hn'
      have hok : ∀ n ∈ D, HeadOK e (c.heads ++ [a]) n := fun n hn' =>
        ⟨(w.ok n hn').1, (w.ok n hn').2.1, (w.ok n hn').2.2.1, List.mem_append_left _ (w.ok n hn').2.2.2⟩
      rw [nodeStep_head e c l a h0 hl hf hc] at hu1 ⊢
      cases hans : e.ans a with
      | notFound =>
        simp only
        exact ⟨D, ⟨w.nodup, hcons false, hok⟩, rfl, fun n h => Or.inl h⟩
      | maint =>
        simp only [hans, onMaint] at hu1
        omega
      | err =>
        simp only
        exact ⟨D, ⟨w.nodup, w.cached, hok⟩, rfl, fun n h => Or.inl h⟩
      | holds =>
        simp only
        refine ⟨a :: D, ⟨List.nodup_cons.mpr ⟨fun hmem => hne a hmem rfl, w.nodup⟩, ?_, ?_⟩, ?_, ?_⟩
        · intro n hn'
          rcases List.mem_cons.mp hn' with rfl | hn'
          · exact cacheGet_cons_self _ _ _
          · exact hcons true n hn'
        · intro n hn'
          rcases List.mem_cons.mp hn' with rfl | hn'
          · exact ⟨hl, hf, hans, by simp⟩
          · exact hok n hn'
        · simp only [List.length_cons]
          omega
        · intro n hn'
          rcases List.mem_cons.mp hn' with rfl | hn'
          · exact Or.inr rfl
          · exact Or.inl hn'

theorem walk_wit (e : Env) (ns : List Nat) (c : Ctx) (l : Loop) (D : List Nat) (w : Wit e c D)
    (hn : (walk e c l ns).1.need = false) (hu : (walk e c l ns).2.unchecked = l.unchecked) :
    ∃ D', Wit e (walk e c l ns).1 D' ∧ D'.length + (walk e c l ns).2.shortage = D.length + l.shortage ∧
      ∀ n ∈ D', n ∈ D ∨ n ∈ ns := by
  induction ns generalizing c l D with
  | nil => exact ⟨D, w, rfl, fun n h => Or.inl h⟩
  | cons a as ih =>
    unfold walk at hn hu ⊢
    split_ifs at hn hu ⊢ with hstop
    · exact ⟨D, w, rfl, fun n h => Or.inl h⟩
    · -- one step, then the induction hypothesis
      dsimp only at hn hu ⊢
      have sm := nodeStep_mono e c l a
      have wm := walk_mono e as (nodeStep e c l a).1 (nodeStep e c l a).2
      have hu1 : (nodeStep e c l a).2.unchecked = l.unchecked := by
        have := sm.unchecked; have := wm.unchecked; omega
      have hu2 : (walk e (nodeStep e c l a).1 (nodeStep e c l a).2 as).2.unchecked = (nodeStep e c l a).2.unchecked := by
        omega
      have hn1 : (nodeStep e c l a).1.need = false := by
        cases h : (nodeStep e c l a).1.need with
        | false => rfl
        | true => rw [wm.need h] at hn; exact Bool.noConfusion hn
      obtain ⟨D1, w1, len1, sub1⟩ := nodeStep_wit e c l a D w hn1 hu1
      obtain ⟨D2, w2, len2, sub2⟩ := ih _ _ D1 w1 hn hu2
      refine ⟨D2, w2, by omega, ?_⟩
      intro n hn'
      rcases sub2 n hn' with h | h
      · rcases sub1 n h with h | h
        · exact Or.inl h
        · exact Or.inr (h ▸ List.mem_cons_self)
      · exact Or.inr (List.mem_cons_of_mem _ h)

/-- the repaired `processNodes`: if the list contains the local node and the local copy is not declared needed,
then as many distinct other nodes of the list as the rule asks for had their header read in this pass -/
theorem processNodes_confirmed (e : Env) (t : OType) (c : Ctx) (nodes : List Nat) (k : Nat) (hm : e.me ∈ nodes)
    (hn : (processNodes e false t c nodes k).need = false) :
    ∃ D : List Nat, D.Nodup ∧ D.length = startShortage t nodes k ∧
      ∀ n ∈ D, n ∈ nodes ∧ HeadOK e (processNodes e false t c nodes k).heads n := by
  unfold processNodes at hn ⊢
  dsimp only at hn ⊢
  generalize hr : walk e c { shortage := startShortage t nodes k } nodes = r at hn ⊢
  have hwn : r.1.need = false := by
    cases h : r.1.need with
    | false => rfl
    | true => rw [finish_need e false r.1 r.2 h] at hn; exact Bool.noConfusion hn
  have hs : r.2.shortage = 0 := by
    have := walk_local e nodes c { shortage := startShortage t nodes k } hm (by rw [hr]; exact hwn)
    rw [hr] at this; exact this
  have hu : r.2.unchecked = 0 := by
    by_contra hne
    have : (finish e false r.1 r.2).need = true := by
      unfold finish
      have h1 : ¬ r.2.shortage > 0 := by omega
      have h2 : r.2.unchecked > 0 := by omega
      simp only [Bool.false_eq_true, if_false, h1, h2, if_true]
    rw [this] at hn; exact Bool.noConfusion hn
  have w0 : Wit e c [] := ⟨List.nodup_nil, fun _ h => by simp at h, fun _ h => by simp at h⟩
  obtain ⟨D, w, len, sub⟩ := walk_wit e nodes c { shortage := startShortage t nodes k } [] w0
    (by rw [hr]; exact hwn) (by rw [hr]; exact hu)
  rw [hr] at w len
  refine ⟨D, w.nodup, by simp only [List.length_nil] at len; omega, ?_⟩
  intro n hn'
  refine ⟨?_, ?_⟩
  · rcases sub n hn' with h | h
    · simp at h
    · exact h
  · rw [finish_heads]
    exact w.ok n hn'

/-! ### the container flag -/

theorem nodeStep_inCnr (e : Env) (c : Ctx) (l : Loop) (n : Nat) :
    (nodeStep e c l n).1.inCnr = (c.inCnr || decide (n = e.me)) := by
  by_cases h0 : l.shortage = 0
  · rw [nodeStep_zero e c l n h0]; rfl
  by_cases hl : n = e.me
  · simp [nodeStep, h0, hl]
  cases hf : e.flag n with
  | true => rw [nodeStep_flag e c l n h0 hl hf]; rfl
  | false =>
    cases hc : cacheGet c.cache n with
    | some b => rw [nodeStep_cached e c l n b h0 hl hf hc]; rfl
    | none =>
      rw [nodeStep_head e c l n h0 hl hf hc]
      cases e.ans n <;> rfl

theorem walk_inCnr (e : Env) (ns : List Nat) (c : Ctx) (l : Loop) (hm : e.me ∉ ns) :
    (walk e c l ns).1.inCnr = c.inCnr := by
  induction ns generalizing c l with
  | nil => rfl
  | cons a as ih =>
    unfold walk
    split_ifs
    · rfl
    · dsimp only
      rw [ih _ _ (fun h => hm (List.mem_cons_of_mem _ h)), nodeStep_inCnr]
      have : a ≠ e.me := fun h => hm (h ▸ List.mem_cons_self)
      simp [this]

theorem runVectors_inCnr (e : Env) (legacy : Bool) (t : OType) (vs : List (List Nat × Nat)) (c : Ctx)
    (hm : ∀ v ∈ vs, e.me ∉ v.1) : (runVectors e legacy t c vs).inCnr = c.inCnr := by
  induction vs generalizing c with
  | nil => rfl
  | cons v vs ih =>
    unfold runVectors
    rw [ih _ (fun v' h => hm v' (List.mem_cons_of_mem _ h))]
    unfold processNodes
    rw [finish_inCnr]
    exact walk_inCnr e v.1 c _ (hm v List.mem_cons_self)

/-! ### every checked holder of the node cache is confirmed -/

/-- a remote node confirmed to hold the object by what the pass saw: its header was read, or the replicator
reported a successful replication to it -/
def Confirmed (e : Env) (heads : List Nat) (tasks : List Task) (n : Nat) : Prop :=
  n ≠ e.me ∧ ((e.ans n = .holds ∧ n ∈ heads) ∨ ∃ t ∈ tasks, n ∈ t.done ∧ n ∈ t.nodes ∧ e.repl n = true)

def CacheInv (e : Env) (c : Ctx) : Prop :=
  ∀ n, cacheGet c.cache n = some true → n ∈ c.unchk ∨ Confirmed e c.heads c.tasks n

theorem Confirmed.mono {e : Env} {h h' : List Nat} {t t' : List Task} {n : Nat} (x : Confirmed e h t n)
    (hh : ∀ m ∈ h, m ∈ h') (ht : ∀ m ∈ t, m ∈ t') : Confirmed e h' t' n :=
  ⟨x.1, x.2.elim (fun y => Or.inl ⟨y.1, hh n y.2⟩) (fun ⟨tk, m, d⟩ => Or.inr ⟨tk, ht tk m, d⟩)⟩

theorem CacheInv.keep {e : Env} {c c' : Ctx} (i : CacheInv e c) (hc : c'.cache = c.cache)
    (hu : ∀ m ∈ c.unchk, m ∈ c'.unchk) (hh : ∀ m ∈ c.heads, m ∈ c'.heads) (ht : ∀ m ∈ c.tasks, m ∈ c'.tasks) :
    CacheInv e c' := by
  intro n hn
  rw [hc] at hn
  exact (i n hn).elim (fun h => Or.inl (hu n h)) (fun h => Or.inr (h.mono hh ht))

theorem nodeStep_cacheInv (e : Env) (c : Ctx) (l : Loop) (n : Nat) (i : CacheInv e c) :
    CacheInv e (nodeStep e c l n).1 := by
  have hseen : CacheInv e (seen e c n) := i.keep rfl (fun _ h => h) (fun _ h => h) (fun _ h => h)
  have hmaint : ∀ c1 : Ctx, CacheInv e c1 → CacheInv e (onMaint c1 l n).1 := by
    intro c1 i1 m hm
    simp only [onMaint] at hm ⊢
    by_cases hmn : m = n
    · exact Or.inl (hmn ▸ List.mem_cons_self)
    · rw [cacheGet_cons_ne _ _ _ _ hmn] at hm
      exact (i1 m hm).elim (fun h => Or.inl (List.mem_cons_of_mem _ h)) Or.inr
  by_cases h0 : l.shortage = 0
  · rw [nodeStep_zero e c l n h0]; exact hseen
  by_cases hl : n = e.me
  · have : (nodeStep e c l n).1 = { seen e c n with need := true } := by simp [nodeStep, seen, h0, hl]
    rw [this]
    exact i.keep rfl (fun _ h => h) (fun _ h => h) (fun _ h => h)
  cases hf : e.flag n with
  | true => rw [nodeStep_flag e c l n h0 hl hf]; exact hmaint _ hseen
  | false =>
    cases hc : cacheGet c.cache n with
    | some b => rw [nodeStep_cached e c l n b h0 hl hf hc]; exact hseen
    | none =>
      rw [nodeStep_head e c l n h0 hl hf hc]
      have hc1 : CacheInv e { seen e c n with heads := c.heads ++ [n] } :=
        i.keep rfl (fun _ h => h) (fun _ h => List.mem_append_left _ h) (fun _ h => h)
      cases hans : e.ans n with
      | notFound =>
        intro m hm
        simp only at hm ⊢
        by_cases hmn : m = n
        · rw [hmn, cacheGet_cons_self] at hm; cases hm
        · rw [cacheGet_cons_ne _ _ _ _ hmn] at hm
          exact hc1 m hm
      | maint => exact hmaint _ hc1
      | err => exact hc1
      | holds =>
        intro m hm
        simp only at hm ⊢
        by_cases hmn : m = n
        · exact Or.inr ⟨hmn ▸ hl, Or.inl ⟨hmn ▸ hans, by simp [hmn]⟩⟩
        · rw [cacheGet_cons_ne _ _ _ _ hmn] at hm
          exact hc1 m hm

theorem walk_cacheInv (e : Env) (ns : List Nat) (c : Ctx) (l : Loop) (i : CacheInv e c) :
    CacheInv e (walk e c l ns).1 := by
  induction ns generalizing c l with
  | nil => exact i
  | cons a as ih =>
    unfold walk
    split_ifs
    · exact i
    · exact ih _ _ (nodeStep_cacheInv e c l a i)

theorem cacheGet_foldl (done : List Nat) (c : List (Nat × Bool)) (n : Nat)
    (h : cacheGet (done.foldl (fun acc m => (m, true) :: acc) c) n = some true) :
    n ∈ done ∨ cacheGet c n = some true := by
  induction done generalizing c with
  | nil => exact Or.inr h
  | cons a as ih =>
    rcases ih _ h with h | h
    · exact Or.inl (List.mem_cons_of_mem _ h)
    · by_cases hna : n = a
      · exact Or.inl (hna ▸ List.mem_cons_self)
      · rw [cacheGet_cons_ne _ _ _ _ hna] at h
        exact Or.inr h

theorem replicate_cacheInv (e : Env) (c : Ctx) (q : Nat) (ns : List Nat) (i : CacheInv e c) :
    CacheInv e (replicate e c q ns) := by
  intro n hn
  simp only [replicate] at hn ⊢
  rcases cacheGet_foldl _ _ _ hn with h | h
  · have s := (handleTask_sound e q ns).2 n h
    exact Or.inr ⟨s.2.1, Or.inr ⟨_, List.mem_append_right _ List.mem_cons_self, h, s.1, s.2.2⟩⟩
  · exact (i n h).elim Or.inl (fun x => Or.inr (x.mono (fun _ y => y) (fun _ y => List.mem_append_left _ y)))

theorem finish_cacheInv (e : Env) (legacy : Bool) (c : Ctx) (l : Loop) (i : CacheInv e c) :
    CacheInv e (finish e legacy c l) := by
  have hneed : ∀ c1 : Ctx, CacheInv e c1 → CacheInv e { c1 with need := true } := fun c1 i1 =>
    i1.keep rfl (fun _ h => h) (fun _ h => h) (fun _ h => h)
  unfold finish
  split_ifs
  all_goals first
    | exact replicate_cacheInv e c _ _ i
    | exact hneed _ (replicate_cacheInv e c _ _ i)
    | exact hneed _ i
    | exact i

theorem runVectors_cacheInv (e : Env) (legacy : Bool) (t : OType) (vs : List (List Nat × Nat)) (c : Ctx)
    (i : CacheInv e c) : CacheInv e (runVectors e legacy t c vs) := by
  induction vs generalizing c with
  | nil => exact i
  | cons v vs ih => exact ih _ (finish_cacheInv e legacy _ _ (walk_cacheInv e v.1 c _ i))

theorem atLeastOneHolder_confirmed (e : Env) (c : Ctx) (i : CacheInv e c) (h : atLeastOneHolder false c = true) :
    ∃ n, Confirmed e c.heads c.tasks n := by
  unfold atLeastOneHolder at h
  obtain ⟨p, _, hp⟩ := List.any_eq_true.mp h
  simp only [Bool.false_or, Bool.and_eq_true, beq_iff_eq, Bool.not_eq_true', List.contains_eq_mem,
    decide_eq_false_iff_not] at hp
  rcases i p.1 hp.1 with h | h
  · exact absurd h hp.2
  · exact ⟨p.1, h⟩

/-! ### the EC part loop -/

theorem ecWalk_spec (e : Env) (seq : List Nat) (l : ECLoop) :
    (∀ n ∈ (ecWalk e l seq).1.cands, n ∈ l.cands ∨ (n ∈ seq.takeWhile (fun m => decide (m ≠ e.me)) ∧ e.ans n = .notFound)) ∧
    (∀ n ∈ l.heads, n ∈ (ecWalk e l seq).1.heads) ∧
    ((ecWalk e l seq).2 = .drop →
      ∃ n ∈ seq.takeWhile (fun m => decide (m ≠ e.me)), e.ans n = .holds ∧ n ∈ (ecWalk e l seq).1.heads) := by
  induction seq generalizing l with
  | nil => simp [ecWalk]
  | cons a as ih =>
    unfold ecWalk
    by_cases ha : a = e.me
    · simp only [ha, if_true]
      refine ⟨fun n h => Or.inl h, fun n h => h, ?_⟩
      split_ifs <;> simp
    · simp only [ha, if_false]
      have tw : List.takeWhile (fun m => decide (m ≠ e.me)) (a :: as) = a :: List.takeWhile (fun m => decide (m ≠ e.me)) as := by
        simp [List.takeWhile_cons, ha]
      rw [tw]
      cases hans : e.ans a with
      | holds =>
        simp only
        exact ⟨fun n h => Or.inl h, fun n h => List.mem_append_left _ h,
          fun _ => ⟨a, List.mem_cons_self, hans, by simp⟩⟩
      | maint =>
        simp only
        obtain ⟨i1, i2, i3⟩ := ih { cands := l.cands, maint := true, heads := l.heads ++ [a] }
        refine ⟨fun n h => (i1 n h).elim Or.inl (fun x => Or.inr ⟨List.mem_cons_of_mem _ x.1, x.2⟩),
          fun n h => i2 n (List.mem_append_left _ h), fun h => ?_⟩
        obtain ⟨n, m, x⟩ := i3 h
        exact ⟨n, List.mem_cons_of_mem _ m, x⟩
      | notFound =>
        simp only
        obtain ⟨i1, i2, i3⟩ := ih { cands := l.cands ++ [a], maint := l.maint, heads := l.heads ++ [a] }
        refine ⟨fun n h => ?_, fun n h => i2 n (List.mem_append_left _ h), fun h => ?_⟩
        · rcases i1 n h with x | x
          · rcases List.mem_append.mp x with y | y
            · exact Or.inl y
            · simp only [List.mem_singleton] at y
              exact Or.inr ⟨y ▸ List.mem_cons_self, y ▸ hans⟩
          · exact Or.inr ⟨List.mem_cons_of_mem _ x.1, x.2⟩
        · obtain ⟨n, m, x⟩ := i3 h
          exact ⟨n, List.mem_cons_of_mem _ m, x⟩
      | err =>
        simp only
        obtain ⟨i1, i2, i3⟩ := ih { cands := l.cands, maint := l.maint, heads := l.heads ++ [a] }
        refine ⟨fun n h => (i1 n h).elim Or.inl (fun x => Or.inr ⟨List.mem_cons_of_mem _ x.1, x.2⟩),
          fun n h => i2 n (List.mem_append_left _ h), fun h => ?_⟩
        obtain ⟨n, m, x⟩ := i3 h
        exact ⟨n, List.mem_cons_of_mem _ m, x⟩

end NeoFS.Policer
