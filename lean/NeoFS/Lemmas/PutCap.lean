import NeoFS.Lemmas.PutLoop
/-! The rule loop of `saveObject` under a total cap (`MaxReplicas > 0`), for `Props/C25.lean`. -/
namespace NeoFS.Put

theorem collect_st_mono : ∀ (rest : List Node) (rs : List (Node × Bool)) (st rem : Nat) (grp : List Node)
    (rest' : List Node) (rs' : List (Node × Bool)) (st' : Nat) (grp' : List Node),
    collect rest rs st rem grp = (rest', rs', st', grp') → st ≤ st' := by
  intro rest
  induction rest with
  | nil => intro rs st rem grp rest' rs' st' grp' h; simp only [collect, Prod.mk.injEq] at h; omega
  | cons n rest ih =>
    intro rs st rem grp rest' rs' st' grp' h
    unfold collect at h
    split_ifs at h
    · cases hl : List.lookup n rs with
      | none => rw [hl] at h; exact ih _ _ _ _ _ _ _ _ h
      | some b =>
        rw [hl] at h
        cases b with
        | true => have := ih _ _ _ _ _ _ _ _ h; omega
        | false => exact ih _ _ _ _ _ _ _ _ h
    · simp only [Prod.mk.injEq] at h; omega

theorem runGroup_acks_len (f : Node → Bool) : ∀ (order : List Node) (g : G) (st : Nat) (g' : G) (st' : Nat),
    runGroup f order g st = (g', st') → g'.acks.length + st = g.acks.length + st' := by
  intro order
  induction order with
  | nil => intro g st g' st' h; simp only [runGroup, Prod.mk.injEq] at h; obtain ⟨rfl, rfl⟩ := h; rfl
  | cons n ns ih =>
    intro g st g' st' h
    unfold runGroup at h
    simp only at h
    have := ih _ _ _ _ h
    by_cases hb : f n = true
    · simp only [hb, if_true, List.length_cons] at this; omega
    · have hb' : f n = false := by simpa using hb
      simp only [hb', Bool.false_eq_true, if_false] at this; omega

theorem handleREP_acks_len (f : Node → Bool) (sched : List Node → List Node) (mn mx : Nat) :
    ∀ (fuel : Nat) (rest : List Node) (g : G) (st : Nat) (g' : G) (st' : Nat) (failed : Bool),
      handleREP f sched mn mx fuel rest g st = (g', st', failed) → g'.acks.length + st ≤ g.acks.length + st' := by
  intro fuel
  induction fuel with
  | zero => intro rest g st g' st' failed h; simp only [handleREP, Prod.mk.injEq] at h; obtain ⟨rfl, rfl, _⟩ := h; omega
  | succ fuel ih =>
    intro rest g st g' st' failed h
    unfold handleREP at h
    split_ifs at h
    · simp only [Prod.mk.injEq] at h; obtain ⟨rfl, rfl, _⟩ := h; omega
    · simp only [Prod.mk.injEq] at h; obtain ⟨rfl, rfl, _⟩ := h; omega
    · simp only [Prod.mk.injEq] at h; obtain ⟨rfl, rfl, _⟩ := h; omega
    · generalize hcol : collect rest g.results st (mx - st) [] = r at h
      obtain ⟨rest', rs', st1, grp⟩ := r
      simp only at h
      generalize hrg : runGroup f (sched grp) { g with results := rs' } st1 = r2 at h
      obtain ⟨g2, st2⟩ := r2
      simp only at h
      have a := collect_st_mono _ _ _ _ _ _ _ _ _ hcol
      have b := runGroup_acks_len f _ _ _ _ _ hrg
      have c := ih _ _ _ _ _ _ h
      simp only at b
      omega

def sumStored (s : LS) : Nat := (s.stored.map Prod.snd).sum

/-- invariant of the capped rule loop while it goes on -/
structure CapInv (e : Env) (s : LS) : Prop where
  inv : Inv (e.ans .main) s.g
  total : sumStored s + s.applied.length + s.left = e.maxReplicas
  pos : 0 < s.left
  acksLe : s.g.acks.length ≤ sumStored s
  perRule : ∀ x ∈ s.stored, x.2 ≤ e.rep.getD x.1 0 ∧ x.2 ≤ ackCount s.g.acks (e.lists.getD x.1 [])

/-- what holds when the loop has ended (normally or by `break`) -/
structure CapEnd (e : Env) (s : LS) : Prop where
  good : ∀ n ∈ s.g.acks, e.ans .main n = true
  totalLe : sumStored s + s.applied.length ≤ e.maxReplicas
  acksLe : s.g.acks.length ≤ sumStored s
  perRule : ∀ x ∈ s.stored, x.2 ≤ e.rep.getD x.1 0 ∧ x.2 ≤ ackCount s.g.acks (e.lists.getD x.1 [])

theorem sumLimits_cons (rep : List Nat) (ecl : Option (List Nat)) (i : Nat) (todo : List Nat) :
    sumLimits rep ecl (i :: todo) = limitOf rep ecl i + sumLimits rep ecl todo := by
  simp [sumLimits]

theorem repRuleStep_cap (e : Env) (hM : e.maxReplicas > 0) (hs : ∀ l, (e.sched l).Perm l)
    (ruleIdx : Nat) (hlt : ruleIdx < e.rep.length) (todo : List Nat) (s s1 : LS) (o : Option (Option Res))
    (hc : CapInv e s) (hnd : (e.lists.getD ruleIdx []).Nodup) (h : repRuleStep e ruleIdx todo s = (s1, o)) :
    (o = none → CapInv e s1 ∧
      (s.left ≤ sumLimits e.rep e.ecLimits (ruleIdx :: todo) → s1.left ≤ sumLimits e.rep e.ecLimits todo)) ∧
    (o = some none → CapEnd e s1 ∧ sumStored s1 + s1.applied.length = e.maxReplicas) := by
  unfold repRuleStep at h
  simp only at h
  by_cases h0 : e.rep.getD ruleIdx 0 = 0
  · rw [if_pos h0] at h
    simp only [Prod.mk.injEq] at h
    obtain ⟨rfl, rfl⟩ := h
    refine ⟨fun _ => ⟨hc, fun hl => ?_⟩, by simp⟩
    rw [sumLimits_cons] at hl
    have : limitOf e.rep e.ecLimits ruleIdx = 0 := by unfold limitOf; rw [if_pos hlt]; exact h0
    omega
  · rw [if_neg h0] at h
    simp only [if_pos hM] at h
    generalize hr : repRule (e.ans .main) e.sched (s.left - sumLimits e.rep e.ecLimits todo)
      (min (e.rep.getD ruleIdx 0) s.left) (e.lists.getD ruleIdx []) s.g = r at h
    obtain ⟨g1, st, failed⟩ := r
    simp only at h
    obtain ⟨r1, r2, r3, r4, r5, _⟩ := repRule_sound _ _ hs _ _ _ _ g1 st failed hnd hc.inv hr
    have hlen : g1.acks.length ≤ s.g.acks.length + st := by
      have := handleREP_acks_len _ _ _ _ _ _ _ _ _ _ _ hr; omega
    have hper : ∀ x ∈ (ruleIdx, st) :: s.stored,
        x.2 ≤ e.rep.getD x.1 0 ∧ x.2 ≤ ackCount g1.acks (e.lists.getD x.1 []) := by
      intro x hx
      rcases List.mem_cons.mp hx with e' | hx
      · subst e'; exact ⟨by simp only; omega, r2⟩
      · exact ⟨(hc.perRule x hx).1, Nat.le_trans (hc.perRule x hx).2 (ackCount_mono r4 _)⟩
    have hsum : ∀ l : Nat, sumStored { s with g := g1, stored := (ruleIdx, st) :: s.stored, left := l } = sumStored s + st := by
      intro l; simp [sumStored]; omega
    cases failed with
    | true =>
      simp only [if_true, Prod.mk.injEq] at h
      obtain ⟨_, rfl⟩ := h
      simp
    | false =>
      simp only [Bool.false_eq_true, if_false] at h
      have hmm := r5 rfl
      by_cases hle : s.left ≤ st
      · rw [if_pos hle] at h
        simp only [Prod.mk.injEq] at h
        obtain ⟨rfl, rfl⟩ := h
        refine ⟨by simp, fun _ => ?_⟩
        have hst : st = s.left := by omega
        have hs0 := hsum s.left
        have htot := hc.total
        have hal := hc.acksLe
        refine ⟨⟨r1.acked_good, ?_, ?_, hper⟩, ?_⟩
        · simp only [sumStored, List.map_cons, List.sum_cons] at *; omega
        · simp only [sumStored, List.map_cons, List.sum_cons] at *; omega
        · simp only [sumStored, List.map_cons, List.sum_cons] at *; omega
      · rw [if_neg hle] at h
        simp only [Prod.mk.injEq] at h
        obtain ⟨rfl, rfl⟩ := h
        refine ⟨fun _ => ⟨⟨r1, ?_, ?_, ?_, hper⟩, fun hl => ?_⟩, by simp⟩
        · have := hc.total; simp only [sumStored, List.map_cons, List.sum_cons] at *; omega
        · simp only; omega
        · have := hc.acksLe; simp only [sumStored, List.map_cons, List.sum_cons] at *; omega
        · rw [sumLimits_cons] at hl
          have : limitOf e.rep e.ecLimits ruleIdx = e.rep.getD ruleIdx 0 := by unfold limitOf; rw [if_pos hlt]
          simp only
          rcases hmm with h' | h' <;> omega

theorem ecRuleStep_cap (e : Env) (hM : e.maxReplicas > 0) (ruleIdx : Nat) (hge : e.rep.length ≤ ruleIdx)
    (todo : List Nat) (s s1 : LS) (o : Option (Option Res)) (hc : CapInv e s)
    (h : ecRuleStep e ruleIdx todo s = (s1, o)) :
    (o = none → CapInv e s1 ∧
      (limitOf e.rep e.ecLimits ruleIdx ≤ 1 → s.left ≤ sumLimits e.rep e.ecLimits (ruleIdx :: todo) →
        s1.left ≤ sumLimits e.rep e.ecLimits todo)) ∧
    (o = some none → CapEnd e s1 ∧ sumStored s1 + s1.applied.length = e.maxReplicas) := by
  unfold ecRuleStep at h
  simp only at h
  have hnlt : ¬ ruleIdx < e.rep.length := by omega
  by_cases hd : ecDisabled e.ecLimits (ruleIdx - e.rep.length) = true
  · rw [if_pos hd] at h
    simp only [Prod.mk.injEq] at h
    obtain ⟨rfl, rfl⟩ := h
    refine ⟨fun _ => ⟨hc, fun _ hl => ?_⟩, by simp⟩
    rw [sumLimits_cons] at hl
    have : limitOf e.rep e.ecLimits ruleIdx = 0 := by
      unfold ecDisabled at hd
      unfold limitOf
      rw [if_neg hnlt]
      cases hl' : e.ecLimits with
      | none => rw [hl'] at hd; simp at hd
      | some l => rw [hl'] at hd; simpa using hd
    omega
  · rw [if_neg hd] at h
    generalize applyEC (fun k n => e.ans (.part (ruleIdx - e.rep.length) k) n)
      (e.ec.getD (ruleIdx - e.rep.length) (0, 0)).1 (e.ec.getD (ruleIdx - e.rep.length) (0, 0)).2
      (e.lists.getD ruleIdx []) (e.picks (ruleIdx - e.rep.length)) = r at h
    obtain ⟨okAll, acks⟩ := r
    simp only at h
    have hM0 : ¬ e.maxReplicas = 0 := by omega
    have hinv' : ∀ x : List (Nat × Nat × Node), Inv (e.ans .main) { s.g with ecAcks := x } :=
      fun _ => hc.inv.congr rfl rfl
    cases okAll with
    | false =>
      simp only [Bool.not_false, if_true, if_neg hM0] at h
      split_ifs at h with hgt
      · simp only [Prod.mk.injEq] at h
        obtain ⟨_, rfl⟩ := h
        simp
      · simp only [Prod.mk.injEq] at h
        obtain ⟨rfl, rfl⟩ := h
        refine ⟨fun _ => ⟨⟨hinv' _, hc.total, hc.pos, hc.acksLe, hc.perRule⟩, fun _ _ => ?_⟩, by simp⟩
        simp only at hgt ⊢; omega
    | true =>
      simp only [Bool.not_true, Bool.false_eq_true, if_false, if_pos hM] at h
      have hpos := hc.pos
      have htot := hc.total
      split_ifs at h with hz
      · simp only [Prod.mk.injEq] at h
        obtain ⟨rfl, rfl⟩ := h
        refine ⟨by simp, fun _ => ?_⟩
        refine ⟨⟨hc.inv.acked_good, ?_, hc.acksLe, hc.perRule⟩, ?_⟩
        · simp only [sumStored, List.length_cons] at *; omega
        · simp only [sumStored, List.length_cons] at *; omega
      · simp only [Prod.mk.injEq] at h
        obtain ⟨rfl, rfl⟩ := h
        refine ⟨fun _ => ⟨⟨hinv' _, ?_, ?_, hc.acksLe, hc.perRule⟩, fun h1 hl => ?_⟩, by simp⟩
        · simp only [sumStored, List.length_cons] at *; omega
        · simp only; omega
        · rw [sumLimits_cons] at hl; simp only; omega

/-- the capped rule loop: per-rule and total limits are never exceeded; the total is reached when the limits
of the rules still to visit can supply it -/
theorem ruleLoop_cap (e : Env) (hM : e.maxReplicas > 0) (hs : ∀ l, (e.sched l).Perm l) :
    ∀ (todo : List Nat) (s s' : LS), CapInv e s → (∀ i ∈ todo, (e.lists.getD i []).Nodup) →
      ruleLoop e todo s = (s', none) →
      CapEnd e s' ∧
      ((∀ i ∈ todo, e.rep.length ≤ i → limitOf e.rep e.ecLimits i ≤ 1) → s.left ≤ sumLimits e.rep e.ecLimits todo →
        sumStored s' + s'.applied.length = e.maxReplicas) := by
  intro todo
  induction todo with
  | nil =>
    intro s s' hc _ h
    simp only [ruleLoop, Prod.mk.injEq] at h
    obtain ⟨rfl, _⟩ := h
    refine ⟨⟨hc.inv.acked_good, by have := hc.total; omega, hc.acksLe, hc.perRule⟩, fun _ hl => ?_⟩
    simp [sumLimits] at hl
    have := hc.pos
    omega
  | cons ruleIdx todo ih =>
    intro s s' hc hnd h
    unfold ruleLoop at h
    simp only at h
    have hnd0 := hnd ruleIdx List.mem_cons_self
    have hndt : ∀ i ∈ todo, (e.lists.getD i []).Nodup := fun i hi => hnd i (List.mem_cons_of_mem _ hi)
    by_cases hge : ruleIdx ≥ e.rep.length
    · rw [if_pos hge] at h
      generalize hst : ecRuleStep e ruleIdx todo s = step at h
      obtain ⟨s1, o⟩ := step
      obtain ⟨c1, c2⟩ := ecRuleStep_cap e hM ruleIdx hge todo s s1 o hc hst
      cases o with
      | some out =>
        simp only [Prod.mk.injEq] at h
        obtain ⟨rfl, rfl⟩ := h
        obtain ⟨a, b⟩ := c2 rfl
        exact ⟨a, fun _ _ => b⟩
      | none =>
        simp only at h
        obtain ⟨a, b⟩ := c1 rfl
        obtain ⟨q1, q2⟩ := ih s1 s' a hndt h
        refine ⟨q1, fun hlim hl => q2 (fun i hi => hlim i (List.mem_cons_of_mem _ hi)) ?_⟩
        exact b (hlim ruleIdx List.mem_cons_self hge) hl
    · rw [if_neg hge] at h
      generalize hst : repRuleStep e ruleIdx todo s = step at h
      obtain ⟨s1, o⟩ := step
      obtain ⟨c1, c2⟩ := repRuleStep_cap e hM hs ruleIdx (by omega) todo s s1 o hc hnd0 hst
      cases o with
      | some out =>
        simp only [Prod.mk.injEq] at h
        obtain ⟨rfl, rfl⟩ := h
        obtain ⟨a, b⟩ := c2 rfl
        exact ⟨a, fun _ _ => b⟩
      | none =>
        simp only at h
        obtain ⟨a, b⟩ := c1 rfl
        obtain ⟨q1, q2⟩ := ih s1 s' a hndt h
        exact ⟨q1, fun hlim hl => q2 (fun i hi => hlim i (List.mem_cons_of_mem _ hi)) (b hl)⟩

end NeoFS.Put
