import NeoFS.Lemmas.SearchOrder
/-!
Byte-level facts for C04: `bytes.Compare` over concatenations (index keys), the hex codec (`hex.EncodeToString` is
order preserving and `hex.DecodeString` inverts it), the canonical UUID string, byte strings as Go strings.
-/
namespace NeoFS.SearchMerge
open NeoFS.Int256

def Bytes (l : List Nat) : Prop := ∀ b ∈ l, b < 256

theorem Bytes.tail {x : Nat} {l : List Nat} (h : Bytes (x :: l)) : Bytes l := fun b hb => h b (List.mem_cons_of_mem _ hb)
theorem Bytes.head {x : Nat} {l : List Nat} (h : Bytes (x :: l)) : x < 256 := h x (by simp)
theorem Bytes.take {l : List Nat} (h : Bytes l) (n : Nat) : Bytes (l.take n) := fun b hb => h b (List.mem_of_mem_take hb)
theorem Bytes.drop {l : List Nat} (h : Bytes l) (n : Nat) : Bytes (l.drop n) := fun b hb => h b (List.mem_of_mem_drop hb)

theorem ofNat_toNat_byte : ∀ n : Fin 256, (Char.ofNat n.val).toNat = n.val := by decide +kernel

theorem char_byte (n : Nat) (h : n < 256) : (Char.ofNat n).toNat = n := ofNat_toNat_byte ⟨n, h⟩

theorem strBytes_bytesStr (l : List Nat) (h : Bytes l) : strBytes (bytesStr l) = l := by
  induction l with
  | nil => rfl
  | cons x xs ih =>
    simp only [strBytes, bytesStr, List.map_cons, List.map_map] at ih ⊢
    rw [char_byte x h.head]
    congr 1
    exact ih h.tail

/-! ### `bytes.Compare` over concatenations -/

theorem lexCmp_cons_same (x : Nat) (a b : List Nat) : lexCmp (x :: a) (x :: b) = lexCmp a b := by
  simp [lexCmp]

theorem lexCmp_append_same (p a b : List Nat) : lexCmp (p ++ a) (p ++ b) = lexCmp a b := by
  induction p with
  | nil => rfl
  | cons x xs ih => rw [List.cons_append, List.cons_append, lexCmp_cons_same, ih]

/-- equally long fields compare field by field -/
theorem lexCmp_append_eqlen : ∀ (a1 a2 b1 b2 : List Nat), a1.length = a2.length →
    lexCmp (a1 ++ b1) (a2 ++ b2) = (lexCmp a1 a2).then (lexCmp b1 b2) := by
  intro a1
  induction a1 with
  | nil =>
    intro a2 b1 b2 h
    cases a2 with
    | nil => simp [lexCmp, Ordering.then]
    | cons _ _ => simp at h
  | cons x xs ih =>
    intro a2 b1 b2 h
    cases a2 with
    | nil => simp at h
    | cons y ys =>
      simp only [List.cons_append, lexCmp]
      by_cases h1 : x < y
      · simp [h1, Ordering.then]
      · by_cases h2 : y < x
        · simp [h1, h2, Ordering.then]
        · simp only [h1, h2, if_false]
          exact ih ys b1 b2 (by simpa using h)

/-- values without the delimiter byte followed by the delimiter compare as the values, then as what follows -/
theorem lexCmp_delim : ∀ (v1 v2 r1 r2 : List Nat), (∀ b ∈ v1, 0 < b) → (∀ b ∈ v2, 0 < b) →
    lexCmp (v1 ++ 0 :: r1) (v2 ++ 0 :: r2) = (lexCmp v1 v2).then (lexCmp r1 r2) := by
  intro v1
  induction v1 with
  | nil =>
    intro v2 r1 r2 _ h2
    cases v2 with
    | nil => simp [lexCmp, Ordering.then]
    | cons y ys =>
      have := h2 y (by simp)
      simp [lexCmp, this, Ordering.then]
  | cons x xs ih =>
    intro v2 r1 r2 h1 h2
    cases v2 with
    | nil =>
      have := h1 x (by simp)
      have hn : ¬ x < 0 := by omega
      simp [lexCmp, this, Ordering.then]
    | cons y ys =>
      simp only [List.cons_append, lexCmp]
      by_cases hxy : x < y
      · simp [hxy, Ordering.then]
      · by_cases hyx : y < x
        · simp [hxy, hyx, Ordering.then]
        · simp only [hxy, hyx, if_false]
          exact ih ys r1 r2 (fun b hb => h1 b (List.mem_cons_of_mem _ hb)) (fun b hb => h2 b (List.mem_cons_of_mem _ hb))

theorem then_eq_lt_or (a b : Ordering) : a.then b = .lt ↔ (a = .lt ∨ (a = .eq ∧ b = .lt)) := by
  cases a <;> cases b <;> simp [Ordering.then]

/-! ### hex -/

theorem hexVal_hexChar : ∀ n : Fin 16, hexVal (hexChar n.val) = some n.val := by decide

theorem hexChar_mono : ∀ a b : Fin 16, ((hexChar a.val).toNat < (hexChar b.val).toNat) = (a.val < b.val) := by decide

theorem hexDec_hexEnc (l : List Nat) (h : Bytes l) : hexDec (hexEnc l) = some l := by
  induction l with
  | nil => rfl
  | cons x xs ih =>
    have hx := h.head
    have e : hexEnc (x :: xs) = hexChar (x / 16) :: hexChar (x % 16) :: hexEnc xs := by simp [hexEnc]
    rw [e]
    simp only [hexDec]
    have h1 := hexVal_hexChar ⟨x / 16, by omega⟩
    have h2 := hexVal_hexChar ⟨x % 16, by omega⟩
    simp only at h1 h2
    rw [h1, h2, ih h.tail]
    simp
    omega

theorem hexEnc_length (l : List Nat) : (hexEnc l).length = 2 * l.length := by
  induction l with
  | nil => rfl
  | cons x xs ih =>
    have e : hexEnc (x :: xs) = hexChar (x / 16) :: hexChar (x % 16) :: hexEnc xs := by simp [hexEnc]
    rw [e]; simp [ih]; omega

theorem hexEnc_append (a b : List Nat) : hexEnc (a ++ b) = hexEnc a ++ hexEnc b := by simp [hexEnc]

/-- **lower-case hex preserves the byte order** (for byte strings of any lengths) -/
theorem hexEnc_order : ∀ (a b : List Nat), Bytes a → Bytes b → lexCmpChars (hexEnc a) (hexEnc b) = lexCmp a b := by
  intro a
  induction a with
  | nil =>
    intro b _ _
    cases b with
    | nil => rfl
    | cons y ys => simp [hexEnc, lexCmpChars, lexCmp]
  | cons x xs ih =>
    intro b ha hb
    cases b with
    | nil => simp [hexEnc, lexCmpChars, lexCmp]
    | cons y ys =>
      have hx := ha.head
      have hy := hb.head
      have e1 : hexEnc (x :: xs) = hexChar (x / 16) :: hexChar (x % 16) :: hexEnc xs := by simp [hexEnc]
      have e2 : hexEnc (y :: ys) = hexChar (y / 16) :: hexChar (y % 16) :: hexEnc ys := by simp [hexEnc]
      have ih' := ih ys ha.tail hb.tail
      unfold lexCmpChars at ih' ⊢
      rw [e1, e2]
      simp only [List.map_cons, lexCmp]
      have m1 := hexChar_mono ⟨x / 16, by omega⟩ ⟨y / 16, by omega⟩
      have m1' := hexChar_mono ⟨y / 16, by omega⟩ ⟨x / 16, by omega⟩
      have m2 := hexChar_mono ⟨x % 16, by omega⟩ ⟨y % 16, by omega⟩
      have m2' := hexChar_mono ⟨y % 16, by omega⟩ ⟨x % 16, by omega⟩
      simp only at m1 m1' m2 m2'
      simp only [m1, m1', m2, m2', ih']
      by_cases h1 : x / 16 < y / 16
      · have : x < y := by omega
        simp [h1, this]
      · by_cases h2 : y / 16 < x / 16
        · have : ¬ x < y := by omega
          have : y < x := by omega
          simp [h1, h2, *]
        · have hq : x / 16 = y / 16 := by omega
          simp only [h1, h2, if_false]
          by_cases h3 : x % 16 < y % 16
          · have : x < y := by omega
            simp [h3, this]
          · by_cases h4 : y % 16 < x % 16
            · have : ¬ x < y := by omega
              have : y < x := by omega
              simp [h3, h4, *]
            · have : x = y := by omega
              subst this
              simp

/-! ### the canonical UUID string -/

theorem lexCmpChars_cons_same (c : Char) (a b : Str) : lexCmpChars (c :: a) (c :: b) = lexCmpChars a b := by
  simp [lexCmpChars, lexCmp]

theorem lexCmpChars_append_eqlen (a1 a2 b1 b2 : Str) (h : a1.length = a2.length) :
    lexCmpChars (a1 ++ b1) (a2 ++ b2) = (lexCmpChars a1 a2).then (lexCmpChars b1 b2) := by
  unfold lexCmpChars
  rw [List.map_append, List.map_append]
  exact lexCmp_append_eqlen _ _ _ _ (by simpa using h)

/-- one hex field followed by a dash -/
theorem field_order (a1 a2 : List Nat) (r1 r2 : Str) (h1 : Bytes a1) (h2 : Bytes a2) (hl : a1.length = a2.length) :
    lexCmpChars (hexEnc a1 ++ '-' :: r1) (hexEnc a2 ++ '-' :: r2) = (lexCmp a1 a2).then (lexCmpChars r1 r2) := by
  rw [lexCmpChars_append_eqlen _ _ _ _ (by rw [hexEnc_length, hexEnc_length, hl]), hexEnc_order a1 a2 h1 h2,
    lexCmpChars_cons_same]

theorem then_assoc (a b c : Ordering) : (a.then b).then c = a.then (b.then c) := by
  cases a <;> simp [Ordering.then]

/-- **the canonical UUID string preserves the byte order of 16-byte values** -/
theorem uuidStr_order (a b : List Nat) (ha : Bytes a) (hb : Bytes b) (la : a.length = 16) (lb : b.length = 16) :
    lexCmpChars (uuidStr a) (uuidStr b) = lexCmp a b := by
  unfold uuidStr
  have s1 : a = a.take 4 ++ ((a.drop 4).take 2 ++ ((a.drop 6).take 2 ++ ((a.drop 8).take 2 ++ a.drop 10))) := by
    rw [show a.drop 6 = (a.drop 4).drop 2 by simp, show a.drop 8 = ((a.drop 4).drop 2).drop 2 by simp,
      show a.drop 10 = (((a.drop 4).drop 2).drop 2).drop 2 by simp]
    simp only [List.take_append_drop]
  have s2 : b = b.take 4 ++ ((b.drop 4).take 2 ++ ((b.drop 6).take 2 ++ ((b.drop 8).take 2 ++ b.drop 10))) := by
    rw [show b.drop 6 = (b.drop 4).drop 2 by simp, show b.drop 8 = ((b.drop 4).drop 2).drop 2 by simp,
      show b.drop 10 = (((b.drop 4).drop 2).drop 2).drop 2 by simp]
    simp only [List.take_append_drop]
  conv_rhs => rw [s1, s2]
  rw [field_order _ _ _ _ (ha.take 4) (hb.take 4) (by simp [la, lb]),
    field_order _ _ _ _ ((ha.drop 4).take 2) ((hb.drop 4).take 2) (by simp [la, lb]),
    field_order _ _ _ _ ((ha.drop 6).take 2) ((hb.drop 6).take 2) (by simp [la, lb]),
    field_order _ _ _ _ ((ha.drop 8).take 2) ((hb.drop 8).take 2) (by simp [la, lb]),
    hexEnc_order _ _ (ha.drop 10) (hb.drop 10)]
  rw [lexCmp_append_eqlen _ _ _ _ (by simp [la, lb]), lexCmp_append_eqlen _ _ _ _ (by simp [la, lb]),
    lexCmp_append_eqlen _ _ _ _ (by simp [la, lb]), lexCmp_append_eqlen _ _ _ _ (by simp [la, lb])]

theorem seg_take (a r : Str) (c : Char) (n : Nat) (h : a.length = n) : (a ++ c :: r).take n = a := by
  subst h; simp

theorem seg_drop (a r : Str) (c : Char) (n : Nat) (h : a.length = n) : (a ++ c :: r).drop (n + 1) = r := by
  subst h
  rw [← List.drop_drop, List.drop_left]
  rfl

theorem seg_get (a r : Str) (c : Char) (n : Nat) (h : a.length = n) : (a ++ c :: r)[n]? = some c := by
  subst h; simp

/-- **`uuid.Parse` inverts `UUID.String`** on 16-byte values -/
theorem uuidParse_uuidStr (b : List Nat) (hb : Bytes b) (lb : b.length = 16) : uuidParse (uuidStr b) = some b := by
  have l1 : (hexEnc (b.take 4)).length = 8 := by rw [hexEnc_length]; simp [lb]
  have l2 : (hexEnc ((b.drop 4).take 2)).length = 4 := by rw [hexEnc_length]; simp [lb]
  have l3 : (hexEnc ((b.drop 6).take 2)).length = 4 := by rw [hexEnc_length]; simp [lb]
  have l4 : (hexEnc ((b.drop 8).take 2)).length = 4 := by rw [hexEnc_length]; simp [lb]
  have l5 : (hexEnc (b.drop 10)).length = 12 := by rw [hexEnc_length]; simp [lb]
  generalize e5 : hexEnc (b.drop 10) = h5 at l5
  generalize e4 : hexEnc ((b.drop 8).take 2) = h4 at l4
  generalize e3 : hexEnc ((b.drop 6).take 2) = h3 at l3
  generalize e2 : hexEnc ((b.drop 4).take 2) = h2 at l2
  generalize e1 : hexEnc (b.take 4) = h1 at l1
  have hs : uuidStr b = h1 ++ ('-' :: (h2 ++ ('-' :: (h3 ++ ('-' :: (h4 ++ ('-' :: h5))))))) := by
    unfold uuidStr; rw [e1, e2, e3, e4, e5]
  rw [hs]
  have d9 : (h1 ++ ('-' :: (h2 ++ ('-' :: (h3 ++ ('-' :: (h4 ++ ('-' :: h5)))))))).drop 9 = h2 ++ ('-' :: (h3 ++ ('-' :: (h4 ++ ('-' :: h5))))) :=
    seg_drop h1 _ '-' 8 l1
  have d14 : (h1 ++ ('-' :: (h2 ++ ('-' :: (h3 ++ ('-' :: (h4 ++ ('-' :: h5)))))))).drop 14 = h3 ++ ('-' :: (h4 ++ ('-' :: h5))) := by
    rw [show 14 = 9 + 5 by rfl, ← List.drop_drop, d9]; exact seg_drop h2 _ '-' 4 l2
  have d19 : (h1 ++ ('-' :: (h2 ++ ('-' :: (h3 ++ ('-' :: (h4 ++ ('-' :: h5)))))))).drop 19 = h4 ++ ('-' :: h5) := by
    rw [show 19 = 14 + 5 by rfl, ← List.drop_drop, d14]; exact seg_drop h3 _ '-' 4 l3
  have d24 : (h1 ++ ('-' :: (h2 ++ ('-' :: (h3 ++ ('-' :: (h4 ++ ('-' :: h5)))))))).drop 24 = h5 := by
    rw [show 24 = 19 + 5 by rfl, ← List.drop_drop, d19]; exact seg_drop h4 _ '-' 4 l4
  have g8 : (h1 ++ ('-' :: (h2 ++ ('-' :: (h3 ++ ('-' :: (h4 ++ ('-' :: h5))))))))[8]? = some '-' := seg_get h1 _ '-' 8 l1
  have g13 : (h1 ++ ('-' :: (h2 ++ ('-' :: (h3 ++ ('-' :: (h4 ++ ('-' :: h5))))))))[13]? = some '-' := by
    have := seg_get h2 (h3 ++ ('-' :: (h4 ++ ('-' :: h5)))) '-' 4 l2
    rw [← d9, List.getElem?_drop] at this
    exact this
  have g18 : (h1 ++ ('-' :: (h2 ++ ('-' :: (h3 ++ ('-' :: (h4 ++ ('-' :: h5))))))))[18]? = some '-' := by
    have := seg_get h3 (h4 ++ ('-' :: h5)) '-' 4 l3
    rw [← d14, List.getElem?_drop] at this
    exact this
  have g23 : (h1 ++ ('-' :: (h2 ++ ('-' :: (h3 ++ ('-' :: (h4 ++ ('-' :: h5))))))))[23]? = some '-' := by
    have := seg_get h4 h5 '-' 4 l4
    rw [← d19, List.getElem?_drop] at this
    exact this
  have hlen : (h1 ++ ('-' :: (h2 ++ ('-' :: (h3 ++ ('-' :: (h4 ++ ('-' :: h5)))))))).length = 36 := by
    simp [l1, l2, l3, l4, l5]
  unfold uuidParse
  rw [hlen, g8, g13, g18, g23, d9, d14, d19, d24, seg_take h1 _ '-' 8 l1, seg_take h2 _ '-' 4 l2, seg_take h3 _ '-' 4 l3,
    seg_take h4 _ '-' 4 l4]
  rw [← e1, ← e2, ← e3, ← e4, ← e5, hexDec_hexEnc _ (hb.take 4), hexDec_hexEnc _ ((hb.drop 4).take 2),
    hexDec_hexEnc _ ((hb.drop 6).take 2), hexDec_hexEnc _ ((hb.drop 8).take 2), hexDec_hexEnc _ (hb.drop 10)]
  simp only [ne_eq, not_true_eq_false, or_self, if_false, Option.some.injEq, List.append_assoc]
  rw [show b.drop 6 = (b.drop 4).drop 2 by simp, show b.drop 8 = ((b.drop 4).drop 2).drop 2 by simp,
    show b.drop 10 = (((b.drop 4).drop 2).drop 2).drop 2 by simp]
  simp only [List.take_append_drop]

end NeoFS.SearchMerge
