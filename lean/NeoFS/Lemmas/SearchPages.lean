/-
C03: pagination.  If every page (from the start or from the cursor of any result) returns the first `count` of the
remaining hits and a cursor iff more remain, then following the cursors with ANY page sizes ≥ 1 lists every hit
exactly once, in order, and ends with an empty cursor.
-/
import NeoFS.Lemmas.SearchEval
namespace NeoFS.Search

/-- the cursor that resumes after the first `i` hits. -/
def curAt (H : List (Bytes × Item)) (i : Nat) : Option Bytes :=
  if i = 0 then none else (H[i - 1]?).map (fun x => x.1.drop 1)

def pageItems : Except PErr Res → List Item
  | .ok r => r.items
  | .error _ => []

/-- every page is a proper answer, every page but the last carries a cursor, the last does not. -/
def chainClean : List (Except PErr Res) → Bool
  | [] => false
  | [.ok r] => !r.err && r.cursor.isNone
  | .ok r :: rest => !r.err && r.cursor.isSome && chainClean rest
  | .error _ :: _ => false

theorem scanResult_nil_acc (hs : List (Bytes × Item)) (n : Nat) :
    scanResult hs n [] [] = Res.mk ((hs.take n).map (·.2))
      (if hs.length > n then some ((((hs.take n).getLast?.map (·.1)).getD []).drop 1) else none) false := by
  simp [scanResult]

theorem pages_exact (b : List Bytes) (avail : Nat → Bool) (fs : List Filter) (attrs : List Bytes)
    (H : List (Bytes × Item))
    (hpage : ∀ i n, i ≤ H.length → 1 ≤ n →
      pageB b avail fs attrs (curAt H i) n = .ok (scanResult (H.drop i) n [] [])) :
    ∀ (fuel i : Nat) (sizes : List Nat), sizes ≠ [] → (∀ n ∈ sizes, 1 ≤ n) → H.length - i < fuel → i ≤ H.length →
      ((pagesB b avail fs attrs fuel sizes (curAt H i)).flatMap pageItems = (H.drop i).map (·.2)) ∧
      chainClean (pagesB b avail fs attrs fuel sizes (curAt H i)) = true := by
  intro fuel
  induction fuel with
  | zero => intro i sizes _ _ hf _; omega
  | succ fuel ih =>
    intro i sizes hne hpos hf hi
    cases sizes with
    | nil => exact absurd rfl hne
    | cons n ns =>
      have hn : 1 ≤ n := hpos n List.mem_cons_self
      unfold pagesB
      rw [hpage i n hi hn, scanResult_nil_acc]
      by_cases hmore : (H.drop i).length > n
      · simp only [hmore, if_true]
        -- the cursor is the one that resumes after i + n hits
        have hlen : i + n ≤ H.length := by simp only [List.length_drop] at hmore; omega
        have hcur : some ((((List.take n (List.drop i H)).getLast?.map (·.1)).getD []).drop 1) = curAt H (i + n) := by
          unfold curAt
          have : ¬ (i + n = 0) := by omega
          simp only [this, if_false]
          have hl : (List.take n (List.drop i H)).getLast? = H[i + n - 1]? := by
            rw [List.getLast?_eq_getElem?]
            simp only [List.length_take, List.length_drop]
            have : min n (H.length - i) = n := by omega
            rw [this, List.getElem?_take]
            have : n - 1 < n := by omega
            simp only [this, if_true, List.getElem?_drop]
            congr 1; omega
          rw [hl]
          have hlt : i + n - 1 < H.length := by omega
          simp [List.getElem?_eq_getElem hlt]
        rw [hcur]
        simp only [Bool.false_eq_true, if_false]
        have hsz : (if ns.isEmpty = true then [n] else ns) ≠ [] := by split <;> simp_all
        have hszpos : ∀ m ∈ (if ns.isEmpty = true then [n] else ns), 1 ≤ m := by
          intro m hm
          split at hm
          · simp only [List.mem_singleton] at hm; omega
          · exact hpos m (List.mem_cons_of_mem _ hm)
        obtain ⟨h1, h2⟩ := ih (i + n) _ hsz hszpos (by omega) hlen
        constructor
        · simp only [List.flatMap_cons, pageItems, h1]
          rw [← List.map_append, ← List.drop_drop, List.take_append_drop]
        · cases hp : pagesB b avail fs attrs fuel (if ns.isEmpty = true then [n] else ns) (curAt H (i + n)) with
          | nil => rw [hp] at h2; simp [chainClean] at h2
          | cons x xs =>
            rw [hp] at h2
            have hsome : (curAt H (i + n)).isSome = true := by rw [← hcur]; rfl
            simp [chainClean, h2, hsome]
      · simp only [hmore, if_false]
        have hall : List.take n (List.drop i H) = List.drop i H := List.take_of_length_le (by omega)
        simp [pageItems, chainClean, hall]

end NeoFS.Search
