/-
C03, generic part: the handler loop (`runScan`) over the keys of any list of index elements `xs`, given that the
handler's verdict on each key agrees with a reference function `exp` (and that a `stop` is only issued when nothing
further is expected), returns exactly the first `count` expected items and a cursor iff there are more.
-/
import NeoFS.Spec.Search
namespace NeoFS.Search

variable {α : Type}

/-- the handler's verdicts along the keys of `xs` agree with `exp`. -/
def VerdictOK (h : HCtx) (key : α → Bytes) (exp : α → Option Item) : List α → Bool → Prop
  | [], _ => True
  | x :: xs, was =>
    match verdict h was (key x) with
    | (.err, _) => False
    | (.stop, _) => exp x = none ∧ ∀ y ∈ xs, exp y = none
    | (.skip, was') => exp x = none ∧ VerdictOK h key exp xs was'
    | (.take it, was') => exp x = some it ∧ VerdictOK h key exp xs was'

def hitsOf (key : α → Bytes) (exp : α → Option Item) (xs : List α) : List (Bytes × Item) :=
  xs.filterMap (fun x => (exp x).map (fun it => (key x, it)))

theorem hitsOf_nil_of_none (key : α → Bytes) (exp : α → Option Item) (xs : List α) (h : ∀ x ∈ xs, exp x = none) :
    hitsOf key exp xs = [] := by
  induction xs with
  | nil => rfl
  | cons k ks ih =>
    simp only [hitsOf, List.filterMap_cons, h k (List.mem_cons_self), Option.map_none]
    exact ih (fun k' hk' => h k' (List.mem_cons_of_mem _ hk'))

theorem hitsOf_cons_none (key : α → Bytes) (exp : α → Option Item) (x : α) (xs : List α) (h : exp x = none) :
    hitsOf key exp (x :: xs) = hitsOf key exp xs := by
  simp [hitsOf, List.filterMap_cons, h]

theorem hitsOf_cons_some (key : α → Bytes) (exp : α → Option Item) (x : α) (xs : List α) (it : Item) (h : exp x = some it) :
    hitsOf key exp (x :: xs) = (key x, it) :: hitsOf key exp xs := by
  simp [hitsOf, List.filterMap_cons, h]

/-- what `runScan` returns, in terms of the hits. -/
def scanResult (hs : List (Bytes × Item)) (count : Nat) (acc : List Item) (last : Bytes) : Res :=
  { items := acc.reverse ++ (hs.take (count - acc.length)).map (·.2),
    cursor := if hs.length > count - acc.length then
        some ((((hs.take (count - acc.length)).getLast?.map (·.1)).getD last).drop 1) else none,
    err := false }

theorem runScan_spec (h : HCtx) (count : Nat) (key : α → Bytes) (exp : α → Option Item) :
    ∀ (xs : List α) (was : Bool) (acc : List Item) (last : Bytes),
      VerdictOK h key exp xs was → acc.length ≤ count →
      runScan h count (xs.map key) was acc last = scanResult (hitsOf key exp xs) count acc last := by
  intro xs
  induction xs with
  | nil =>
    intro was acc last _ _
    simp [runScan, scanResult, hitsOf]
  | cons k ks ih =>
    intro was acc last hok hlen
    unfold VerdictOK at hok
    rw [List.map_cons]
    unfold runScan
    split at hok
    · exact absurd hok id
    · rename_i w hv
      rw [hv]
      have hnil : hitsOf key exp (k :: ks) = [] := by
        rw [hitsOf_cons_none key exp k ks hok.1]; exact hitsOf_nil_of_none key exp ks hok.2
      simp [hnil, scanResult]
    · rename_i w hv
      rw [hv]
      simp only
      rw [ih w acc last hok.2 hlen, hitsOf_cons_none key exp k ks hok.1]
    · rename_i it w hv
      rw [hv]
      simp only
      rw [hitsOf_cons_some key exp k ks it hok.1]
      by_cases hc : acc.length = count
      · simp [hc, scanResult]
      · simp only [hc, if_false]
        have hlt : acc.length < count := Nat.lt_of_le_of_ne hlen hc
        rw [ih w (it :: acc) (key k) hok.2 (by simp only [List.length_cons]; omega)]
        have hroom : count - acc.length = (count - (it :: acc).length) + 1 := by
          simp only [List.length_cons]; omega
        unfold scanResult
        rw [hroom]
        simp only [List.take_succ_cons, List.map_cons, List.reverse_cons, List.append_assoc, List.singleton_append,
          List.length_cons, Nat.add_lt_add_iff_right]
        congr 1
        by_cases hm : (hitsOf key exp ks).length > count - (acc.length + 1)
        · simp only [hm, if_true]
          congr 2
          cases hl : (List.take (count - (acc.length + 1)) (hitsOf key exp ks)) with
          | nil => simp
          | cons x xs => simp [List.getLast?_cons]
        · simp [hm]

end NeoFS.Search
