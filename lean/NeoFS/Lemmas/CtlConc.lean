import NeoFS.Model.CtlConc
/-!
Helper lemmas for the concurrent part of C32 (`Props/C32.lean`): in the code as it is a step of a request touches
only that request, so under any schedule a request is at the state its own steps lead to.
-/
namespace NeoFS.C32
open NeoFS.CtlAuth NeoFS.CtlConc

/-- `f` applied `n` times -/
def iter {α : Type} (f : α → α) : Nat → α → α
  | 0, x => x
  | n + 1, x => iter f n (f x)

theorem iter_succ_outer {α : Type} (f : α → α) (n : Nat) (x : α) : iter f (n + 1) x = f (iter f n x) := by
  induction n generalizing x with
  | zero => rfl
  | succ n ih => exact ih (f x)

theorem iter_add {α : Type} (f : α → α) (a b : Nat) (x : α) : iter f (a + b) x = iter f b (iter f a x) := by
  induction a generalizing x with
  | zero => simp [iter]
  | succ a ih =>
    have h : a + 1 + b = (a + b) + 1 := by omega
    rw [h]
    exact ih (f x)

/-- In the code as it is, a step of a request neither reads nor writes anything owned by the server. -/
theorem step_fresh (allowed : List Nat) (sh : Option Nat) (t : Thread) :
    step .fresh allowed sh t = (sh, stepT allowed t) := by
  unfold stepT step
  cases t.pc <;> simp only [] <;> (repeat' split) <;> rfl

/-- What a request has established when it stands at a given step. -/
def ThreadInv (allowed : List Nat) (t : Thread) : Prop :=
  match t.pc with
  | .start => True
  | .keyScanned => ∃ k sv, t.req.sig = some (k, sv) ∧ t.flag = allowed.contains k
  | .scanned => ∃ k sv, t.req.sig = some (k, sv) ∧ k ∈ allowed
  | .marshaled => (∃ k sv, t.req.sig = some (k, sv) ∧ k ∈ allowed) ∧ t.req.marshals = true ∧
      t.buf = some t.req.body
  | .decoded => (∃ k sv, t.req.sig = some (k, sv) ∧ k ∈ allowed) ∧ t.req.marshals = true ∧
      t.buf = some t.req.body ∧ t.req.keyDecodes = true
  | .done v => v = isValidRequest allowed (seqView t.req)

theorem stepT_req (allowed : List Nat) (t : Thread) : (stepT allowed t).req = t.req := by
  unfold stepT step
  cases t.pc <;> simp only [] <;> (repeat' split) <;> rfl

theorem stepT_inv (allowed : List Nat) (t : Thread) (h : ThreadInv allowed t) : ThreadInv allowed (stepT allowed t) := by
  obtain ⟨req, pc, flag, buf⟩ := t
  obtain ⟨body, sig, marshals, keyDecodes⟩ := req
  cases pc with
  | start =>
    cases sig with
    | none => simp [stepT, step, ThreadInv, isValidRequest, seqView]
    | some ks =>
      obtain ⟨k, sv⟩ := ks
      simp [stepT, step, ThreadInv]
  | keyScanned =>
    obtain ⟨k, sv, hs, hf⟩ := h
    simp only [] at hs hf
    subst hs hf
    by_cases hk : k ∈ allowed
    · simp [stepT, step, ThreadInv, hk]
    · simp [stepT, step, ThreadInv, isValidRequest, seqView, hk]
  | scanned =>
    obtain ⟨k, sv, hs, hk⟩ := h
    simp only [] at hs
    subst hs
    cases marshals <;> simp [stepT, step, ThreadInv, isValidRequest, seqView, hk]
  | marshaled =>
    obtain ⟨⟨k, sv, hs, hk⟩, hm, hb⟩ := h
    simp only [] at hs hm hb
    subst hs hm hb
    cases keyDecodes <;> simp [stepT, step, ThreadInv, isValidRequest, seqView, hk]
  | decoded =>
    obtain ⟨⟨k, sv, hs, hk⟩, hm, hb, hd⟩ := h
    simp only [] at hs hm hb hd
    subst hs hm hb hd
    by_cases hv : verify k body sv = true <;> simp [stepT, step, ThreadInv, isValidRequest, seqView, hk, hv]
  | done v => simpa [stepT, step, ThreadInv] using h

theorem iter_stepT_inv (allowed : List Nat) (n : Nat) (t : Thread) (h : ThreadInv allowed t) :
    ThreadInv allowed (iter (stepT allowed) n t) ∧ (iter (stepT allowed) n t).req = t.req := by
  induction n generalizing t with
  | zero => exact ⟨h, rfl⟩
  | succ n ih =>
    have := ih (stepT allowed t) (stepT_inv allowed t h)
    exact ⟨this.1, this.2.trans (stepT_req allowed t)⟩

/-- Under ANY schedule a request has made exactly as many of its own steps as the schedule gave it: the steps of the
other requests do not touch it. -/
theorem run_fresh_thread (allowed : List Nat) (sch : List Nat) (s : Sys) (j : Nat) :
    (run .fresh allowed sch s).ts j = iter (stepT allowed) (sch.count j) (s.ts j) := by
  induction sch generalizing s with
  | nil => rfl
  | cons i sch ih =>
    have hrun : run .fresh allowed (i :: sch) s = run .fresh allowed sch (stepAt .fresh allowed s i) := rfl
    rw [hrun, ih]
    by_cases hji : j = i
    · subst hji
      simp only [stepAt, step_fresh, if_true, List.count_cons_self]
      rfl
    · have hij : (i == j) = false := by simp [Ne.symm hji]
      simp only [stepAt, if_neg hji, List.count_cons, hij]
      rfl

theorem stepT_done (allowed : List Nat) (t : Thread) (v : Verdict) (h : t.pc = .done v) : stepT allowed t = t := by
  obtain ⟨req, pc, flag, buf⟩ := t
  simp only [] at h
  subst h
  rfl

theorem iter_stepT_done (allowed : List Nat) (n : Nat) (t : Thread) (v : Verdict) (h : t.pc = .done v) :
    iter (stepT allowed) n t = t := by
  induction n with
  | zero => rfl
  | succ n ih => rw [iter, stepT_done allowed t v h, ih]

theorem five_steps_decide (allowed : List Nat) (r : CReq) :
    ∃ v, (iter (stepT allowed) 5 { req := r }).pc = .done v := by
  obtain ⟨body, sig, marshals, keyDecodes⟩ := r
  cases sig with
  | none => exact ⟨_, rfl⟩
  | some ks =>
    obtain ⟨k, sv⟩ := ks
    by_cases hk : k ∈ allowed <;> cases marshals <;> cases keyDecodes <;>
      simp [iter, stepT, step, hk]


end NeoFS.C32
