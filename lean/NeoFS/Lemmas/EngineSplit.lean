import NeoFS.Props.C20
import Mathlib.Tactic.Tauto
namespace NeoFS.Engine

/-- what shard `i` answers in the first pass (none: no such shard) -/
def ansOf (ans : Nat → Shard → Bool → GetR) (e : Eng) (i : Nat) : Option GetR :=
  (e.shards[i]?).map fun s => ans i s s.mode.noMeta

def anySplit (ans : Nat → Shard → Bool → GetR) (e : Eng) (ord : List Nat) : Bool :=
  ord.any fun i => match ansOf ans e i with | some (.err (.split _ _)) => true | _ => false
def anyLink (ans : Nat → Shard → Bool → GetR) (e : Eng) (ord : List Nat) : Bool :=
  ord.any fun i => match ansOf ans e i with | some (.err (.split l _)) => l != 0 | _ => false
def anyLast (ans : Nat → Shard → Bool → GetR) (e : Eng) (ord : List Nat) : Bool :=
  ord.any fun i => match ansOf ans e i with | some (.err (.split _ p)) => p != 0 | _ => false

/-- every shard either does not know the object or reports split information consistent with link `L` and
last part `P` (a field is unset or has THE value) -/
def SplitConsistent (ans : Nat → Shard → Bool → GetR) (e : Eng) (ord : List Nat) (L P : Nat) : Prop :=
  ∀ i ∈ ord, ∀ r, ansOf ans e i = some r →
    r = .err .notFound ∨ ∃ l p, r = .err (.split l p) ∧ (l = 0 ∨ l = L) ∧ (p = 0 ∨ p = P)

/-- the result the merged split information denotes -/
def splitSpec (ans : Nat → Shard → Bool → GetR) (e : Eng) (ord : List Nat) (L P : Nat) : GetR :=
  if anySplit ans e ord then
    .err (.split (if anyLink ans e ord then L else 0) (if anyLast ans e ord then P else 0))
  else .err .notFound

theorem pass1_split (ans : Nat → Shard → Bool → GetR) (e : Eng) (L P : Nat) (hL : L ≠ 0) (hP : P ≠ 0) :
    ∀ (ord : List Nat) (st : P1) (a b : Nat) (started : Bool),
      SplitConsistent ans e ord L P → st.metaSh = none →
      st.split = (if started then some (a, b) else none) → (a = 0 ∨ a = L) → (b = 0 ∨ b = P) →
      ¬ (a ≠ 0 ∧ b ≠ 0) → (started = false → a = 0 ∧ b = 0) →
      let a' := if a ≠ 0 ∨ anyLink ans e ord = true then L else 0
      let b' := if b ≠ 0 ∨ anyLast ans e ord = true then P else 0
      (pass1 ans ord e st).1 = e ∧
      (a' ≠ 0 ∧ b' ≠ 0 → (pass1 ans ord e st).2.1 = some (.err (.split L P))) ∧
      (¬ (a' ≠ 0 ∧ b' ≠ 0) → (pass1 ans ord e st).2.1 = none ∧ (pass1 ans ord e st).2.2.metaSh = none ∧
        (pass1 ans ord e st).2.2.split = (if started || anySplit ans e ord then some (a', b') else none)) := by
  intro ord
  induction ord with
  | nil =>
    intro st a b started _ hm hs ha hb hnc hst
    simp only [anyLink, anyLast, anySplit, List.any_nil, Bool.false_eq_true, or_false, Bool.or_false, pass1]
    refine ⟨by trivial, ?_, ?_⟩
    · intro hc
      exfalso
      apply hnc
      constructor
      · intro h0; simp [h0] at hc
      · intro h0; simp [h0] at hc
    · intro _
      refine ⟨by trivial, hm, ?_⟩
      rw [hs]
      cases started with
      | false => simp
      | true =>
        simp only [if_true]
        rcases ha with ha | ha <;> rcases hb with hb | hb <;> simp [ha, hb, hL, hP]
  | cons i rest ih =>
    intro st a b started hcons hm hs ha hb hnc hst
    have hcons' : SplitConsistent ans e rest L P := fun j hj r hr => hcons j (by simp [hj]) r hr
    have hi := hcons i (by simp)
    unfold pass1
    cases hsh : e.shards[i]? with
    | none =>
      have hno : ansOf ans e i = none := by simp [ansOf, hsh]
      have := ih st a b started hcons' hm hs ha hb hnc hst
      simpa [anyLink, anyLast, anySplit, List.any_cons, hno] using this
    | some s =>
      simp only
      have hans : ansOf ans e i = some (ans i s s.mode.noMeta) := by simp [ansOf, hsh]
      rcases hi _ hans with hr | ⟨l, p, hr, hl, hp⟩
      · -- not found here
        rw [hr]
        simp only [classify]
        have hnote : noteMeta { st with hasDeg := st.hasDeg || s.mode.noMeta } i .notFound =
            { st with hasDeg := st.hasDeg || s.mode.noMeta } := by simp [noteMeta]
        rw [hnote]
        have := ih { st with hasDeg := st.hasDeg || s.mode.noMeta } a b started hcons' hm hs ha hb hnc hst
        rw [hr] at hans
        simpa [anyLink, anyLast, anySplit, List.any_cons, hans] using this
      · rw [hr]
        simp only [classify]
        have hnote : noteMeta { st with hasDeg := st.hasDeg || s.mode.noMeta } i (.split l p) =
            { st with hasDeg := st.hasDeg || s.mode.noMeta } := by simp [noteMeta]
        rw [hnote]
        rw [hr] at hans
        have hacc : (({ st with hasDeg := st.hasDeg || s.mode.noMeta } : P1).split.getD (0, 0)) = (a, b) := by
          show st.split.getD (0, 0) = (a, b)
          rw [hs]
          cases started with
          | true => rfl
          | false => have := hst rfl; simp [this.1, this.2]
        rw [hacc]
        simp only [mergeSplit]
        -- the merged accumulator
        have ha1 : ((if (l != 0) = true then l else a) = 0 ∨ (if (l != 0) = true then l else a) = L) := by
          rcases hl with hl | hl <;> rcases ha with ha | ha <;> simp [hl, ha, hL]
        have hb1 : ((if (p != 0) = true then p else b) = 0 ∨ (if (p != 0) = true then p else b) = P) := by
          rcases hp with hp | hp <;> rcases hb with hb | hb <;> simp [hp, hb, hP]
        by_cases hcomp : ((if (l != 0) = true then l else a) != 0 && (if (p != 0) = true then p else b) != 0) = true
        · rw [if_pos hcomp]
          have hc12 : ((if (l != 0) = true then l else a) != 0) = true ∧ ((if (p != 0) = true then p else b) != 0) = true := by
            simpa only [Bool.and_eq_true] using hcomp
          have hc1 : (if (l != 0) = true then l else a) ≠ 0 := bne_iff_ne.mp hc12.1
          have hc2 : (if (p != 0) = true then p else b) ≠ 0 := bne_iff_ne.mp hc12.2
          have e1 : (if (l != 0) = true then l else a) = L := by
            rcases ha1 with h | h
            · exact absurd h hc1
            · exact h
          have e2 : (if (p != 0) = true then p else b) = P := by
            rcases hb1 with h | h
            · exact absurd h hc2
            · exact h
          have hal : a ≠ 0 ∨ l ≠ 0 := by
            by_cases h0 : l = 0
            · left; intro ha0; apply hc1; simp [h0, ha0]
            · right; exact h0
          have hbl : b ≠ 0 ∨ p ≠ 0 := by
            by_cases h0 : p = 0
            · left; intro hb0; apply hc2; simp [h0, hb0]
            · right; exact h0
          refine ⟨rfl, fun _ => by rw [e1, e2], fun hn => ?_⟩
          exfalso; apply hn
          constructor
          · rcases hal with h | h
            · simp [h, hL]
            · simp [anyLink, List.any_cons, hans, h, hL]
          · rcases hbl with h | h
            · simp [h, hP]
            · simp [anyLast, List.any_cons, hans, h, hP]
        · rw [if_neg hcomp]
          have hnc1 : ¬ ((if (l != 0) = true then l else a) ≠ 0 ∧ (if (p != 0) = true then p else b) ≠ 0) := by
            intro h; apply hcomp
            rw [Bool.and_eq_true]
            exact ⟨bne_iff_ne.mpr h.1, bne_iff_ne.mpr h.2⟩
          have := ih { st with hasDeg := st.hasDeg || s.mode.noMeta,
                               split := some ((if (l != 0) = true then l else a), (if (p != 0) = true then p else b)) }
            (if (l != 0) = true then l else a) (if (p != 0) = true then p else b) true hcons' hm rfl ha1 hb1 hnc1 (by simp)
          -- rewrite the goal's conditions into those of the induction hypothesis
          have cL : ((if (l != 0) = true then l else a) ≠ 0 ∨ anyLink ans e rest = true) ↔
              (a ≠ 0 ∨ anyLink ans e (i :: rest) = true) := by
            simp only [anyLink, List.any_cons, hans, Bool.or_eq_true, bne_iff_ne, ne_eq]
            by_cases h0 : l = 0 <;> simp [h0] <;> tauto
          have cP : ((if (p != 0) = true then p else b) ≠ 0 ∨ anyLast ans e rest = true) ↔
              (b ≠ 0 ∨ anyLast ans e (i :: rest) = true) := by
            simp only [anyLast, List.any_cons, hans, Bool.or_eq_true, bne_iff_ne, ne_eq]
            by_cases h0 : p = 0 <;> simp [h0] <;> tauto
          have cS : (true || anySplit ans e rest) = (started || anySplit ans e (i :: rest)) := by
            simp [anySplit, List.any_cons, hans]
          simp only [cL, cP, cS] at this
          exact this

/-- the read returns exactly what the merged split information denotes -/
theorem getWith_split_spec (ans : Nat → Shard → Bool → GetR) (e : Eng) (ord : List Nat) (L P : Nat)
    (hL : L ≠ 0) (hP : P ≠ 0) (hc : SplitConsistent ans e ord L P) :
    (getWith ans e ord).2 = splitSpec ans e ord L P := by
  have h := pass1_split ans e L P hL hP ord {} 0 0 false hc rfl rfl (Or.inl rfl) (Or.inl rfl)
    (fun h => h.1 rfl) (fun _ => ⟨rfl, rfl⟩)
  simp only [ne_eq, not_true_eq_false, false_or, Bool.false_or] at h
  unfold getWith splitSpec
  generalize pass1 ans ord e {} = r at h
  obtain ⟨e1, r1, st1⟩ := r
  simp only at h
  by_cases hcomp : (¬(if anyLink ans e ord = true then L else 0) = 0) ∧ (¬(if anyLast ans e ord = true then P else 0) = 0)
  · have hr := h.2.1 hcomp
    have hl : anyLink ans e ord = true := by
      cases hx : anyLink ans e ord with
      | true => rfl
      | false => rw [hx] at hcomp; simp at hcomp
    have hp : anyLast ans e ord = true := by
      cases hx : anyLast ans e ord with
      | true => rfl
      | false => rw [hx] at hcomp; simp at hcomp
    have hs : anySplit ans e ord = true := by
      unfold anyLink at hl
      unfold anySplit
      rw [List.any_eq_true] at hl ⊢
      obtain ⟨i, hi, hx⟩ := hl
      refine ⟨i, hi, ?_⟩
      split at hx
      · rfl
      · cases hx
    rw [hr]
    simp [hl, hp, hs]
  · obtain ⟨hr, hm, hsp⟩ := h.2.2 hcomp
    rw [hr]
    simp only
    rw [hsp]
    cases hs : anySplit ans e ord with
    | true => simp
    | false => simp [hm]

/-- **Split-info merging is order-independent**: when every shard either does not know the object or reports
split information consistent with one link and one last part, every two orders that visit the same shards
give the same answer (the early stop on complete information included). -/
theorem split_merge_order_independent (ans : Nat → Shard → Bool → GetR) (e : Eng) (ord1 ord2 : List Nat)
    (L P : Nat) (hL : L ≠ 0) (hP : P ≠ 0) (hperm : ord1.Perm ord2) (hc : SplitConsistent ans e ord1 L P) :
    (getWith ans e ord1).2 = (getWith ans e ord2).2 := by
  have hc2 : SplitConsistent ans e ord2 L P := fun i hi r hr => hc i (hperm.mem_iff.mpr hi) r hr
  rw [getWith_split_spec ans e ord1 L P hL hP hc, getWith_split_spec ans e ord2 L P hL hP hc2]
  unfold splitSpec anySplit anyLink anyLast
  rw [hperm.any_eq, hperm.any_eq, hperm.any_eq]

/-- non-vacuity: link known to shard 0, last part to shard 2, shard 1 knows nothing: both orders merge to the
complete information -/
example :
    let ans : Nat → Shard → Bool → GetR := fun i _ _ =>
      if i == 0 then .err (.split 9 0) else if i == 2 then .err (.split 0 8) else .err .notFound
    let e : Eng := { shards := [{}, {}, {}] }
    (getWith ans e [0, 1, 2]).2 = .err (.split 9 8) ∧ (getWith ans e [2, 1, 0]).2 = .err (.split 9 8) := by
  decide

end NeoFS.Engine
