/-
C03: what `parseIntFilters` establishes (`PFok`): the raw bytes are the encoding of the parsed filter value, and
`AutoMatch` is only set for `<= 2^256-1` and `>= -(2^256-1)`.
-/
import NeoFS.Lemmas.SearchEval
namespace NeoFS.Search
open NeoFS.Int256

theorem cmpDigits_num (a b : List Char) (ha : Norm a) (hb : Norm b) :
    cmpDigits a b = ordNat (decVal a) (decVal b) := by
  unfold cmpDigits
  by_cases hl : a.length = b.length
  · simp only [hl, ne_eq, not_true_eq_false, if_false]
    exact lexCmpChars_eq_len a b hl ha.1 hb.1
  · simp only [hl, ne_eq, not_false_eq_true, if_true]
    by_cases hlt : a.length < b.length
    · have := norm_len_lt a b ha hb hlt
      simp [hlt, ordNat, this]
    · have hgt : b.length < a.length := by omega
      have := norm_len_lt b a hb ha hgt
      have n1 : ¬ decVal a < decVal b := by omega
      simp [hlt, ordNat, this, n1]

theorem maxDigits_spec : decVal maxDigits = two256 - 1 ∧ Norm maxDigits := by
  obtain ⟨h1, h2, h3⟩ := natToDec_spec (two256 - 1)
  refine ⟨h1, h2, ?_⟩
  right
  have hh : maxDigits.head? = some '1' := by decide
  cases hm : maxDigits with
  | nil => exact absurd hm h3
  | cons c l =>
    rw [hm] at hh
    simp only [List.head?_cons, Option.some.injEq] at hh
    exact ⟨c, l, rfl, by rw [hh]; decide⟩


theorem parseNormalized_norm (neg : Bool) (d : List Char) (hn : Norm d) (hv : decVal d < two256) :
    parseNormalized neg d = some (mk neg (decVal d)) := by
  unfold parseNormalized
  have hne : d.isEmpty = false := by
    rcases hn.2 with h | ⟨c, l, h, _⟩ <;> simp [h]
  simp [hne, hn.1, hv]

theorem cop_isInt_op (f : Filter) (h : f.cop.isInt = true) : f.op.isInt = true := by
  unfold Filter.cop Filter.conv at h
  split at h
  · simp [Op.isInt] at h
  · exact h

theorem ordNat_eq_eq {a b : Nat} : ordNat a b = .eq ↔ a = b := by
  unfold ordNat; split
  · simp; omega
  · split
    · simp; omega
    · simp; omega

theorem ordNat_eq_gt {a b : Nat} : ordNat a b = .gt ↔ b < a := by
  unfold ordNat; split
  · simp; omega
  · split
    · simp; assumption
    · simp; omega

/-- the result of one step of `parseIntFilters`. -/
theorem parseIntFilter_ok (f0 : Filter) (i : Nat) (f : Filter) (p : PF) (h : parseIntFilter f0 i f = .ok p) :
    p.f = f ∧ PFok f0 i p := by
  unfold parseIntFilter at h
  by_cases hi : f.cop.isInt = true
  · simp only [hi, Bool.not_true, Bool.false_eq_true, if_false] at h
    cases hs : splitIntString (toChars f.cval) with
    | none => rw [hs] at h; simp at h
    | some nd =>
      obtain ⟨neg, digits⟩ := nd
      rw [hs] at h
      simp only at h
      obtain ⟨hnorm, hzero⟩ := split_norm _ _ _ hs
      obtain ⟨hmaxv, hmaxn⟩ := maxDigits_spec
      have hc := cmpDigits_num digits maxDigits hnorm hmaxn
      rw [hmaxv] at hc
      have hra := readers_agree (toChars f.cval)
      rw [hs] at hra
      simp only [Option.bind_some] at hra
      have h1le : 1 ≤ two256 := by decide
      -- the common tail: `rawOf auto` returned `p`, the digits are in range
      have tail : ∀ (auto : Bool), decVal digits < two256 →
          (auto = true → (f.cop = .le ∧ mk neg (decVal digits) = maxI) ∨ (f.cop = .ge ∧ mk neg (decVal digits) = minI)) →
          (if (!auto && (decide (i = 0) || (f0.op.isInt && decide (f.attr = f0.attr)))) = true then
              match parseNormalized neg digits with
              | some z => (Except.ok { f := f, auto := auto, raw := encode z } : Except PErr PF)
              | none => Except.error PErr.invalid
            else Except.ok { f := f, auto := auto }) = Except.ok p → p.f = f ∧ PFok f0 i p := by
        intro auto hv hauto hres
        have hpn := parseNormalized_norm neg digits hnorm hv
        have hx : parseInt f.cval = some (mk neg (decVal digits)) := by
          unfold parseInt; rw [← hra, hpn]
        rw [hpn] at hres
        simp only at hres
        split at hres
        · rename_i hcond
          simp only [Except.ok.injEq] at hres
          subst hres
          refine ⟨rfl, fun _ => ⟨_, hx, ?_, fun _ _ => rfl⟩⟩
          intro ha
          simp only [Bool.and_eq_true, Bool.not_eq_true'] at hcond
          rw [hcond.1] at ha; exact absurd ha (by simp)
        · rename_i hcond
          simp only [Except.ok.injEq] at hres
          subst hres
          refine ⟨rfl, fun _ => ⟨_, hx, hauto, ?_⟩⟩
          intro ha hor
          exfalso
          apply hcond
          simp only at ha
          simp only [ha, Bool.not_false, Bool.true_and, Bool.or_eq_true, decide_eq_true_eq, Bool.and_eq_true]
          rcases hor with h0 | ⟨h1, h2⟩
          · exact Or.inl h0
          · exact Or.inr ⟨cop_isInt_op f0 h1, h2⟩
      by_cases hb1 : (!neg && cmpDigits digits maxDigits != .lt) = true
      · simp only [hb1, if_true] at h
        simp only [Bool.and_eq_true, Bool.not_eq_true', bne_iff_ne, ne_eq] at hb1
        obtain ⟨hneg, hnlt⟩ := hb1
        by_cases hgt : (cmpDigits digits maxDigits == .gt) = true
        · simp [hgt] at h
        · simp only [hgt, Bool.false_eq_true, if_false] at h
          have heq : decVal digits = two256 - 1 := by
            rw [hc] at hnlt hgt
            have h2 : ¬ (two256 - 1 < decVal digits) := by
              intro hh; exact hgt (by simp [ordNat_eq_gt.2 hh])
            have h3 : ¬ (decVal digits < two256 - 1) := by
              intro hh; exact hnlt (ordNat_eq_lt.2 hh)
            omega
          by_cases hmgt : f.cop = .gt
          · simp [hmgt] at h
          · simp only [hmgt, if_false] at h
            refine tail (decide (f.cop = .le)) (by omega) ?_ h
            intro ha
            left
            refine ⟨by simpa using ha, ?_⟩
            subst hneg
            simp [mk, maxI, heq]
      · simp only [hb1, Bool.false_eq_true, if_false] at h
        by_cases hneg : neg = true
        · simp only [hneg, if_true] at h
          by_cases hgt : (cmpDigits digits maxDigits == .gt) = true
          · simp [hgt] at h
          · simp only [hgt, Bool.false_eq_true, if_false] at h
            have hle : decVal digits ≤ two256 - 1 := by
              rw [hc] at hgt
              have h2 : ¬ (two256 - 1 < decVal digits) := by
                intro hh; exact hgt (by simp [ordNat_eq_gt.2 hh])
              omega
            by_cases hun : (cmpDigits digits maxDigits == .eq && decide (f.cop = .lt)) = true
            · simp [hun] at h
            · simp only [hun, Bool.false_eq_true, if_false] at h
              subst hneg
              refine tail _ (by omega) ?_ h
              intro ha
              right
              simp only [Bool.and_eq_true, beq_iff_eq, decide_eq_true_eq] at ha
              refine ⟨ha.2, ?_⟩
              have : decVal digits = two256 - 1 := by
                have := ha.1; rw [hc] at this; exact ordNat_eq_eq.1 this
              have hne0 : two256 - 1 ≠ 0 := by decide
              simp [mk, minI, this, hne0]
        · simp only [hneg, Bool.false_eq_true, if_false] at h
          have hneg' : neg = false := by simpa using hneg
          have hlt : decVal digits < two256 - 1 := by
            simp only [hneg', Bool.not_false, Bool.true_and, bne_iff_ne, ne_eq, Decidable.not_not] at hb1
            rw [hc] at hb1; exact ordNat_eq_lt.1 hb1
          subst hneg'
          refine tail false (by omega) (by intro ha; cases ha) h
  · have hi' : f.cop.isInt = false := by simpa using hi
    simp only [hi', Bool.not_false, if_true, Except.ok.injEq] at h
    subst h
    exact ⟨rfl, fun hh => by simp only at hh; rw [hi'] at hh; cases hh⟩


theorem parseIntFiltersAux_ok (f0 : Filter) :
    ∀ (fs : List Filter) (i : Nat) (ps : List PF), parseIntFiltersAux f0 i fs = .ok ps →
      ps.map (·.f) = fs ∧ ∀ j p, ps[j]? = some p → PFok f0 (i + j) p := by
  intro fs
  induction fs with
  | nil =>
    intro i ps h
    simp only [parseIntFiltersAux, Except.ok.injEq] at h
    subst h
    exact ⟨rfl, fun j p hj => by simp at hj⟩
  | cons f r ih =>
    intro i ps h
    unfold parseIntFiltersAux at h
    cases h1 : parseIntFilter f0 i f with
    | error e => rw [h1] at h; simp at h
    | ok p =>
      rw [h1] at h
      simp only at h
      cases h2 : parseIntFiltersAux f0 (i + 1) r with
      | error e => rw [h2] at h; simp at h
      | ok ps' =>
        rw [h2] at h
        simp only [Except.ok.injEq] at h
        subst h
        obtain ⟨hpf, hpok⟩ := parseIntFilter_ok f0 i f p h1
        obtain ⟨hm, hall⟩ := ih (i + 1) ps' h2
        refine ⟨by simp [hpf, hm], ?_⟩
        intro j q hj
        cases j with
        | zero => simp only [List.getElem?_cons_zero, Option.some.injEq] at hj; subst hj; exact hpok
        | succ j =>
          simp only [List.getElem?_cons_succ] at hj
          have := hall j q hj
          rw [show i + (j + 1) = i + 1 + j by omega]; exact this

/-- what `PreprocessSearchQuery` returns for a non-empty filter list: the filters themselves, preprocessed as `PFok`
says, the requested attributes, and the query is not one answered empty by rule. -/
theorem preprocess_fs (f0 : Filter) (r : List Filter) (attrs : List Bytes) (cur : Option Bytes) (c : Ctx)
    (h : preprocess (f0 :: r) attrs cur = .ok c) :
    c.fs.map (·.f) = f0 :: r ∧ c.attrs = attrs ∧ blindly (f0 :: r) = false ∧
      ∀ idx p, c.fs[idx]? = some p → PFok f0 idx p := by
  unfold preprocess at h
  simp only at h
  split at h
  · simp at h
  · split at h
    · simp at h
    · rename_i curv _
      split at h
      · simp at h
      · rename_i hbl
        have hbl' : blindly (f0 :: r) = false := by simpa using hbl
        split at h
        · simp at h
        · rename_i ofs hofs
          have hofs' : ofs.map (·.f) = f0 :: r ∧ ∀ idx p, ofs[idx]? = some p → PFok f0 idx p := by
            split at hofs
            · obtain ⟨h1, h2⟩ := parseIntFiltersAux_ok f0 (f0 :: r) 0 ofs hofs
              exact ⟨h1, fun idx p hp => by simpa using h2 idx p hp⟩
            · rename_i hnoint
              simp only [Except.ok.injEq] at hofs
              subst hofs
              have hmm : ∀ l : List Filter, (l.map (fun f => ({ f := f } : PF))).map (·.f) = l := by
                intro l; induction l <;> simp_all
              refine ⟨hmm _, ?_⟩
              intro idx p hp hi
              exfalso
              have hmem := List.mem_of_getElem? hp
              obtain ⟨f, hf, rfl⟩ := List.mem_map.1 hmem
              apply hnoint
              rw [List.any_eq_true]
              exact ⟨f, hf, cop_isInt_op f hi⟩
          have fin : ∀ (c' : Ctx), c'.fs = ofs → c'.attrs = attrs → c' = c →
              c.fs.map (·.f) = f0 :: r ∧ c.attrs = attrs ∧ blindly (f0 :: r) = false ∧
                ∀ idx p, c.fs[idx]? = some p → PFok f0 idx p := by
            intro c' h1 h2 h3
            subst h3
            rw [h1, h2]
            exact ⟨hofs'.1, rfl, hbl', hofs'.2⟩
          split at h
          · simp only [Except.ok.injEq] at h; exact fin _ rfl rfl h
          · split at h
            · simp only [Except.ok.injEq] at h; exact fin _ rfl rfl h
            · split at h
              · split at h
                · split at h
                  · simp only [Except.ok.injEq] at h; exact fin _ rfl rfl h
                  · simp only [Except.ok.injEq] at h; exact fin _ rfl rfl h
                · simp at h
              · simp only [Except.ok.injEq] at h; exact fin _ rfl rfl h

end NeoFS.Search
