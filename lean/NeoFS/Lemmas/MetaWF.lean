import NeoFS.Model.Meta
import NeoFS.Spec.MetaRef
/-!
Well-formedness of a metabase bucket (`recs` and `garb` strictly sorted by id — what bbolt's key uniqueness
and ordering give) and its preservation by every operation of `Model/Meta.lean`.
-/
namespace NeoFS.Meta

def RecsSorted (l : List Rec) : Prop := l.Pairwise fun a b => a.id < b.id
def GarbSorted (l : List (Nat × Bool)) : Prop := l.Pairwise fun a b => a.1 < b.1

structure Cnr.WF (c : Cnr) : Prop where
  recs : RecsSorted c.recs
  garb : GarbSorted c.garb

theorem wf_empty : ({} : Cnr).WF := ⟨List.Pairwise.nil, List.Pairwise.nil⟩

/-! ### insertion keeps lists sorted -/

theorem insertRec_ids (r : Rec) : ∀ (l : List Rec) (x : Rec), x ∈ insertRec r l → x.id = r.id ∨ x ∈ l := by
  intro l
  induction l with
  | nil => intro x h; simp [insertRec] at h; exact Or.inl (by rw [h])
  | cons y ys ih =>
    intro x h
    unfold insertRec at h
    split at h
    · simp at h; rcases h with rfl | rfl | h
      · exact Or.inl rfl
      · exact Or.inr (by simp)
      · exact Or.inr (by simp [h])
    · split at h
      · simp at h; rcases h with rfl | h
        · exact Or.inl rfl
        · exact Or.inr (by simp [h])
      · simp at h; rcases h with rfl | h
        · exact Or.inr (by simp)
        · rcases ih x h with h | h
          · exact Or.inl h
          · exact Or.inr (by simp [h])

theorem insertRec_sorted (r : Rec) : ∀ (l : List Rec), RecsSorted l → RecsSorted (insertRec r l) := by
  intro l
  induction l with
  | nil => intro _; simp [insertRec, RecsSorted]
  | cons y ys ih =>
    intro h
    unfold RecsSorted at h ih ⊢
    rw [List.pairwise_cons] at h
    unfold insertRec
    split
    · rename_i hlt
      rw [List.pairwise_cons]
      refine ⟨?_, List.pairwise_cons.mpr h⟩
      intro x hx; simp at hx; rcases hx with rfl | hx
      · exact hlt
      · exact Nat.lt_trans hlt (h.1 x hx)
    · split
      · rename_i heq
        rw [List.pairwise_cons]
        refine ⟨?_, h.2⟩
        intro x hx; simp only; rw [heq]; exact h.1 x hx
      · rename_i hnlt hne
        rw [List.pairwise_cons]
        refine ⟨?_, ih h.2⟩
        intro x hx
        rcases insertRec_ids r ys x hx with he | hm
        · rw [he]; omega
        · exact h.1 x hm

theorem insertGarb_ids (g : Nat × Bool) : ∀ (l : List (Nat × Bool)) (x : Nat × Bool),
    x ∈ insertGarb g l → x.1 = g.1 ∨ x ∈ l := by
  intro l
  induction l with
  | nil => intro x h; simp [insertGarb] at h; exact Or.inl (by rw [h])
  | cons y ys ih =>
    intro x h
    unfold insertGarb at h
    split at h
    · simp at h; rcases h with rfl | rfl | h
      · exact Or.inl rfl
      · exact Or.inr (by simp)
      · exact Or.inr (by simp [h])
    · split at h
      · simp at h; rcases h with rfl | h
        · exact Or.inl rfl
        · exact Or.inr (by simp [h])
      · simp at h; rcases h with rfl | h
        · exact Or.inr (by simp)
        · rcases ih x h with h | h
          · exact Or.inl h
          · exact Or.inr (by simp [h])

theorem insertGarb_sorted (g : Nat × Bool) : ∀ (l : List (Nat × Bool)), GarbSorted l → GarbSorted (insertGarb g l) := by
  intro l
  induction l with
  | nil => intro _; simp [insertGarb, GarbSorted]
  | cons y ys ih =>
    intro h
    unfold GarbSorted at h ih ⊢
    rw [List.pairwise_cons] at h
    unfold insertGarb
    split
    · rename_i hlt
      rw [List.pairwise_cons]
      refine ⟨?_, List.pairwise_cons.mpr h⟩
      intro x hx; simp at hx; rcases hx with rfl | hx
      · exact hlt
      · exact Nat.lt_trans hlt (h.1 x hx)
    · split
      · rename_i heq
        rw [List.pairwise_cons]
        refine ⟨?_, h.2⟩
        intro x hx; rw [heq]; exact h.1 x hx
      · rename_i hnlt hne
        rw [List.pairwise_cons]
        refine ⟨?_, ih h.2⟩
        intro x hx
        rcases insertGarb_ids g ys x hx with he | hm
        · rw [he]; omega
        · exact h.1 x hm

theorem filter_recs_sorted (p : Rec → Bool) (l : List Rec) (h : RecsSorted l) : RecsSorted (l.filter p) :=
  List.Pairwise.filter p h

theorem filter_garb_sorted (p : Nat × Bool → Bool) (l : List (Nat × Bool)) (h : GarbSorted l) :
    GarbSorted (l.filter p) := List.Pairwise.filter p h

/-- in a sorted list an id denotes at most one record -/
theorem find_of_mem (l : List Rec) (h : RecsSorted l) (r : Rec) (hr : r ∈ l) :
    l.find? (·.id == r.id) = some r := by
  induction l with
  | nil => cases hr
  | cons y ys ih =>
    unfold RecsSorted at h
    rw [List.pairwise_cons] at h
    simp only [List.mem_cons] at hr
    rcases hr with rfl | hr
    · simp
    · have hlt := h.1 r hr
      have : (y.id == r.id) = false := by simp; omega
      rw [List.find?_cons, this]
      exact ih h.2 hr

theorem garb_find_of_mem (l : List (Nat × Bool)) (h : GarbSorted l) (g : Nat × Bool) (hg : g ∈ l) :
    l.find? (·.1 == g.1) = some g := by
  induction l with
  | nil => cases hg
  | cons y ys ih =>
    unfold GarbSorted at h
    rw [List.pairwise_cons] at h
    simp only [List.mem_cons] at hg
    rcases hg with rfl | hg
    · simp
    · have hlt := h.1 g hg
      have : (y.1 == g.1) = false := by simp; omega
      rw [List.find?_cons, this]
      exact ih h.2 hg

end NeoFS.Meta

namespace NeoFS.Meta

/-! ### every operation keeps buckets well-formed -/

def DBWF (db : DB) : Prop := ∀ b ∈ db, b.2.WF

theorem getCnr_mem (db : DB) (cn : Nat) (c : Cnr) (h : getCnr? db cn = some c) : ∃ k, (k, c) ∈ db := by
  unfold getCnr? at h
  cases hf : db.find? (·.1 == cn) with
  | none => simp [hf] at h
  | some b =>
    simp [hf] at h
    exact ⟨b.1, by rw [← h]; exact List.mem_of_find?_eq_some hf⟩

theorem getCnr_wf (db : DB) (hdb : DBWF db) (cn : Nat) : ((getCnr? db cn).getD {}).WF := by
  cases h : getCnr? db cn with
  | none => exact wf_empty
  | some c =>
    obtain ⟨k, hk⟩ := getCnr_mem db cn c h
    exact hdb (k, c) hk

theorem setCnr_mem (db : DB) (cn : Nat) (v : Cnr) : ∀ b ∈ setCnr db cn v, b = (cn, v) ∨ b ∈ db := by
  induction db with
  | nil => intro b hb; simp [setCnr] at hb; exact Or.inl hb
  | cons x xs ih =>
    intro b hb
    unfold setCnr at hb
    split at hb
    · simp at hb; rcases hb with rfl | rfl | hb
      · exact Or.inl rfl
      · exact Or.inr (by simp)
      · exact Or.inr (by simp [hb])
    · split at hb
      · simp at hb; rcases hb with rfl | hb
        · exact Or.inl rfl
        · exact Or.inr (by simp [hb])
      · simp at hb; rcases hb with rfl | hb
        · exact Or.inr (by simp)
        · rcases ih b hb with h | h
          · exact Or.inl h
          · exact Or.inr (by simp [h])

theorem setCnr_wf (db : DB) (hdb : DBWF db) (cn : Nat) (v : Cnr) (hv : v.WF) : DBWF (setCnr db cn v) := by
  intro b hb
  rcases setCnr_mem db cn v b hb with rfl | h
  · exact hv
  · exact hdb b h

theorem tombstoneMarks_sorted (c : Cnr) (h : c.WF) (epoch target : Nat) :
    GarbSorted (c.tombstoneMarks epoch target).1 := by
  unfold Cnr.tombstoneMarks
  generalize c.collectChildren 4 target ++ [target] = ids
  suffices H : ∀ (ids : List Nat) (acc : List (Nat × Bool) × Int × Int), GarbSorted acc.1 →
      GarbSorted (ids.foldl (c.tombStep epoch) acc).1 by
    exact H ids (c.garb, 0, 0) h.garb
  intro ids
  induction ids with
  | nil => intro acc h; exact h
  | cons x xs ih =>
    intro acc hacc
    simp only [List.foldl_cons]
    apply ih
    unfold Cnr.tombStep
    exact insertGarb_sorted _ _ hacc

theorem putKind_wf (c1 : Cnr) (h1 : c1.WF) (epoch level : Nat) (h : Hdr) (b : Bool) (e : Err)
    (c2 : Cnr) (d : Diff) (e' : Err) (heq : putKind c1 epoch level h b e = (some (c2, d), e')) : c2.WF := by
  unfold putKind at heq
  simp only at heq
  have inj : ∀ {x : Cnr} {dx : Diff} {ex : Err}, (some (x, dx), ex) = (some (c2, d), e') → x = c2 := by
    intro x dx ex hh
    have := (Prod.mk.inj hh).1
    exact (Prod.mk.inj (Option.some.inj this)).1
  cases hty : h.typ <;> rw [hty] at heq <;> simp only at heq
  · exact inj heq ▸ h1
  · -- tombstone
    split at heq; · cases heq
    split at heq; · cases heq
    split at heq; · cases heq
    split at heq; · cases heq
    have := inj heq
    rw [← this]
    exact ⟨h1.recs, tombstoneMarks_sorted c1 h1 epoch h.assoc⟩
  · -- lock
    split at heq; · cases heq
    split at heq; · cases heq
    split at heq; · cases heq
    exact inj heq ▸ h1
  · exact inj heq ▸ h1
  · split at heq
    · cases heq
    · exact inj heq ▸ h1

theorem putSelf_wf (c0 c1 : Cnr) (h0 : c0.WF) (h1 : c1.WF) (epoch level : Nat) (h : Hdr) (b : Bool) (e : Err) :
    (putSelf c0 c1 epoch level h b e).1.WF := by
  unfold putSelf
  split
  · rename_i c2 d e' heq
    have := putKind_wf c1 h1 epoch level h b e c2 d e' heq
    exact ⟨insertRec_sorted _ _ this.recs, this.garb⟩
  · exact h0

theorem putChain_wf (epoch : Nat) : ∀ (chain : List Hdr) (c : Cnr) (level : Nat), c.WF →
    (putChain c epoch level chain).1.WF := by
  intro chain
  induction chain with
  | nil => intro c level h; simpa [putChain] using h
  | cons hd parents ih =>
    intro c level hc
    unfold putChain
    split
    · exact hc
    · simp only
      split
      · exact hc
      · split
        · exact hc
        · split
          · exact hc
          · -- the parent step
            cases parents with
            | nil =>
              simp only
              split
              · exact hc
              · exact putSelf_wf c c hc hc _ _ _ _ _
            | cons p rest =>
              simp only
              split
              · -- p.id != 0
                split
                · simp only; split
                  · exact hc
                  · exact putSelf_wf c c hc hc _ _ _ _ _
                · simp only
                  split
                  · exact hc
                  · exact putSelf_wf c _ hc (ih c (level + 1) hc) _ _ _ _ _
              · simp only
                split
                · exact hc
                · exact putSelf_wf c c hc hc _ _ _ _ _

theorem markStep_wf (epoch : Nat) (red : Bool) (acc : Cnr × Nat × Int) (id : Nat) (h : acc.1.WF) :
    (markStep epoch red acc id).1.WF := by
  obtain ⟨cur, newG, pay⟩ := acc
  unfold markStep
  simp only
  split
  · split
    · exact ⟨h.recs, insertGarb_sorted _ _ h.garb⟩
    · exact h
  · exact ⟨h.recs, insertGarb_sorted _ _ h.garb⟩

theorem foldl_markStep_wf (epoch : Nat) (red : Bool) : ∀ (objs : List Nat) (acc : Cnr × Nat × Int), acc.1.WF →
    (objs.foldl (markStep epoch red) acc).1.WF := by
  intro objs
  induction objs with
  | nil => intro acc h; exact h
  | cons x xs ih => intro acc h; exact ih _ (markStep_wf epoch red acc x h)

theorem markGarbageIn_wf (c : Cnr) (h : c.WF) (epoch : Nat) (objs : List Nat) (red : Bool) :
    (c.markGarbageIn epoch objs red).1.WF := foldl_markStep_wf epoch red objs (c, 0, 0) h

theorem dropId_wf (c : Cnr) (h : c.WF) (id : Nat) : (c.dropId id).WF :=
  ⟨filter_recs_sorted _ _ h.recs, filter_garb_sorted _ _ h.garb⟩

theorem deleteMetadata_wf : ∀ (fuel : Nat) (c : Cnr) (id : Nat) (isParent : Bool), c.WF →
    (c.deleteMetadata fuel id isParent).1.WF := by
  intro fuel
  induction fuel with
  | zero => intro c id ip h; simpa [Cnr.deleteMetadata] using h
  | succ f ih =>
    intro c id ip h
    unfold Cnr.deleteMetadata
    split
    · split
      · exact ⟨h.recs, filter_garb_sorted _ _ h.garb⟩
      · exact h
    · split
      · exact h
      · simp only
        split
        · exact ih _ _ _ (dropId_wf c h id)
        · exact dropId_wf c h id

theorem dbPut_wf (db : DB) (hdb : DBWF db) (epoch cn : Nat) (chain : List Hdr) : DBWF (dbPut db epoch cn chain).1 := by
  unfold dbPut
  simp only
  split
  · exact setCnr_wf db hdb cn _ (putChain_wf epoch chain _ 0 (getCnr_wf db hdb cn))
  · exact hdb

theorem dbMarkGarbage_wf (db : DB) (hdb : DBWF db) (epoch cn : Nat) (ids : List Nat) (r : Bool) :
    DBWF (dbMarkGarbage db epoch cn ids r) := by
  unfold dbMarkGarbage
  cases h : getCnr? db cn with
  | none => exact hdb
  | some c =>
    simp only
    have hc : c.WF := by
      obtain ⟨k, hk⟩ := getCnr_mem db cn c h
      exact hdb (k, c) hk
    split
    · exact hdb
    · apply setCnr_wf db hdb
      have := markGarbageIn_wf c hc epoch (ids.flatMap fun id => id :: c.collectChildren 4 id) r
      exact ⟨this.recs, this.garb⟩

theorem dbInhume_wf (db : DB) (hdb : DBWF db) (cn : Nat) : DBWF (dbInhumeContainer db cn) := by
  unfold dbInhumeContainer
  have := getCnr_wf db hdb cn
  exact setCnr_wf db hdb cn _ ⟨this.recs, this.garb⟩

theorem dbDeleteContainer_wf (db : DB) (hdb : DBWF db) (cn : Nat) : DBWF (dbDeleteContainer db cn) := by
  intro b hb
  exact hdb b (List.mem_filter.mp hb).1

theorem dbDelete_wf (db : DB) (hdb : DBWF db) (cn : Nat) (ids : List Nat) : DBWF (dbDelete db cn ids) := by
  unfold dbDelete
  cases h : getCnr? db cn with
  | none => exact hdb
  | some c =>
    simp only
    have hc : c.WF := by
      obtain ⟨k, hk⟩ := getCnr_mem db cn c h
      exact hdb (k, c) hk
    apply setCnr_wf db hdb
    suffices H : ∀ (l : List Nat) (acc : Cnr × Diff), acc.1.WF →
        (l.foldl (fun (acc : Cnr × Diff) id =>
          let (cur, dsum) := acc
          let (cur', d, _) := cur.deleteMetadata 4 id false
          (cur', dsum.add d)) acc).1.WF by
      have := H (c.supplement ids) (c, {}) hc
      exact ⟨this.recs, this.garb⟩
    intro l
    induction l with
    | nil => intro acc h; exact h
    | cons x xs ih =>
      intro acc hacc
      simp only [List.foldl_cons]
      apply ih
      exact deleteMetadata_wf 4 acc.1 x false hacc

theorem dropTombs_wf (id : Nat) : ∀ (fuel : Nat) (c : Cnr), c.WF → (c.dropTombs id fuel).WF := by
  intro fuel
  induction fuel with
  | zero => intro c h; exact h
  | succ f ih =>
    intro c h
    unfold Cnr.dropTombs
    split
    · rename_i tomb _
      have := deleteMetadata_wf 4 c tomb false h
      exact ih _ ⟨this.recs, this.garb⟩
    · exact h

theorem reviveDropTomb_wf (c : Cnr) (hc : c.WF) (id : Nat) (st : Status) : (c.reviveDropTomb id st).1.WF := by
  unfold Cnr.reviveDropTomb
  split
  · split
    · exact dropTombs_wf id _ c hc
    · exact hc
  · exact hc

theorem revive_wf (c : Cnr) (hc : c.WF) (id : Nat) (c' : Cnr) (res : ReviveRes)
    (h : c.revive id = (some c', res)) : c'.WF := by
  unfold Cnr.revive at h
  simp only at h
  split at h
  · cases h
  · split at h
    · cases h
    · have := reviveDropTomb_wf c hc id (c.inGarbage id)
      have e := (Prod.mk.inj h).1
      have e' := Option.some.inj e
      rw [← e']
      exact ⟨this.recs, filter_garb_sorted _ _ this.garb⟩

theorem dbRevive_wf (db : DB) (hdb : DBWF db) (cn id : Nat) : DBWF (dbRevive db cn id).1 := by
  unfold dbRevive
  cases h : getCnr? db cn with
  | none => exact hdb
  | some c =>
    simp only
    have hc : c.WF := by
      obtain ⟨k, hk⟩ := getCnr_mem db cn c h
      exact hdb (k, c) hk
    split
    · exact hdb
    · split
      · rename_i c' res heq
        exact setCnr_wf db hdb cn c' (revive_wf c hc id c' res heq)
      · exact hdb

theorem dbSyncCounters_wf (db : DB) (hdb : DBWF db) : DBWF (dbSyncCounters db) := by
  intro b hb
  unfold dbSyncCounters at hb
  rw [List.mem_map] at hb
  obtain ⟨b0, hb0, rfl⟩ := hb
  have h0 := hdb b0 hb0
  unfold Cnr.syncCounters
  simp only
  split <;> exact ⟨h0.recs, h0.garb⟩

/-- **Every reachable state is well-formed.** -/
theorem run_wf (ops : List Op) : DBWF (run ops).db := by
  unfold run
  suffices H : ∀ (ops : List Op) (s : St), DBWF s.db → DBWF (ops.foldl step s).db by
    exact H ops {} (by intro b hb; cases hb)
  intro ops
  induction ops with
  | nil => intro s h; exact h
  | cons o os ih =>
    intro s h
    simp only [List.foldl_cons]
    apply ih
    cases o with
    | setEpoch e => exact h
    | put cn chain => exact dbPut_wf s.db h s.epoch cn chain
    | mark cn ids r => exact dbMarkGarbage_wf s.db h s.epoch cn ids r
    | inhumeCnr cn => exact dbInhume_wf s.db h cn
    | deleteCnr cn => exact dbDeleteContainer_wf s.db h cn
    | delete cn ids => exact dbDelete_wf s.db h cn ids
    | revive cn id => exact dbRevive_wf s.db h cn id
    | syncCounters => exact dbSyncCounters_wf s.db h

end NeoFS.Meta
