import NeoFS.Model.EC
/-! Lemmas about splitting a payload into equal parts (for `Props/C21.lean`). -/
namespace NeoFS.EC

theorem chunks_length (sz : Nat) : ∀ (k : Nat) (l : List Nat), (chunks sz k l).length = k := by
  intro k; induction k with
  | zero => intro l; rfl
  | succ k ih => intro l; simp [chunks, ih]

theorem chunks_len (sz : Nat) : ∀ (k : Nat) (l : List Nat), l.length = k * sz →
    ∀ s ∈ chunks sz k l, s.length = sz := by
  intro k; induction k with
  | zero => intro l _ s h; simp [chunks] at h
  | succ k ih =>
    intro l hl s h
    simp only [chunks, List.mem_cons] at h
    have hk : (k + 1) * sz = k * sz + sz := by rw [Nat.add_mul, Nat.one_mul]
    rcases h with rfl | h
    · simp [List.length_take]; omega
    · exact ih (l.drop sz) (by simp [List.length_drop]; omega) s h

theorem chunks_flatten (sz : Nat) : ∀ (k : Nat) (l : List Nat), l.length ≤ k * sz →
    (chunks sz k l).flatten = l := by
  intro k; induction k with
  | zero => intro l h; simp at h; simp [chunks, h]
  | succ k ih =>
    intro l hl
    have hk : (k + 1) * sz = k * sz + sz := by rw [Nat.add_mul, Nat.one_mul]
    simp only [chunks, List.flatten_cons]
    rw [ih (l.drop sz) (by simp [List.length_drop]; omega), List.take_append_drop]

/-- `d * ⌈n/d⌉ ≥ n` -/
theorem le_mul_perShard (n d : Nat) (hd : 1 ≤ d) : n ≤ d * perShard n d := by
  unfold perShard
  have := Nat.lt_mul_div_succ (n + d - 1) (show 0 < d by omega)
  rw [Nat.mul_add, Nat.mul_one] at this
  omega

theorem padded_length (payload : List Nat) (d : Nat) (hd : 1 ≤ d) :
    (payload ++ List.replicate (d * perShard payload.length d - payload.length) 0).length
      = d * perShard payload.length d := by
  have := le_mul_perShard payload.length d hd
  simp; omega

theorem dataParts_length (payload : List Nat) (d : Nat) : (dataParts payload d).length = d := by
  simp [dataParts, chunks_length]

theorem dataParts_len (payload : List Nat) (d : Nat) (hd : 1 ≤ d) :
    ∀ s ∈ dataParts payload d, s.length = perShard payload.length d := by
  intro s hs
  exact chunks_len _ d _ (by rw [padded_length payload d hd]) s hs

theorem dataParts_flatten (payload : List Nat) (d : Nat) (hd : 1 ≤ d) :
    (dataParts payload d).flatten = payload ++ List.replicate (d * perShard payload.length d - payload.length) 0 := by
  exact chunks_flatten _ d _ (by rw [padded_length payload d hd]; exact Nat.le_refl _)

theorem dataParts_flatten_take (payload : List Nat) (d : Nat) (hd : 1 ≤ d) :
    ((dataParts payload d).flatten).take payload.length = payload := by
  rw [dataParts_flatten payload d hd, List.take_left']
  rfl

end NeoFS.EC
