import NeoFS.Model.Assemble
import NeoFS.Props.C11
import NeoFS.Lemmas.ECCoding
import Mathlib.Tactic.SplitIfs
/-! Helper lemmas for `Props/C23.lean`: list slicing, the `requiredChildrenIter` window, the reverse walk. -/
namespace NeoFS.Assemble
open NeoFS.Spec

/-! ### slices -/

theorem slice_append (a b : Bytes) (o l : Nat) :
    slice (a ++ b) o l = slice a o l ++ slice b (o - a.length) (l - (a.length - o)) := by
  unfold slice
  rw [List.drop_append, List.take_append, List.length_drop]

theorem slice_zero_all (c : Bytes) (l : Nat) (h : c.length ≤ l) : slice c 0 l = c := by
  unfold slice; simp [List.take_of_length_le h]

theorem slice_beyond (c : Bytes) (o l : Nat) (h : c.length ≤ o) : slice c o l = [] := by
  unfold slice; simp [List.drop_of_length_le h]

theorem slice_len_zero (c : Bytes) (o : Nat) : slice c o 0 = [] := by
  unfold slice; simp

/-- two lengths that are cut off at the same point give the same slice -/
theorem slice_congr (c : Bytes) (o l1 l2 : Nat) (h : min l1 (c.length - o) = min l2 (c.length - o)) :
    slice c o l1 = slice c o l2 := by
  unfold slice
  rw [List.take_eq_take_iff, List.length_drop]
  exact h

/-! ### `Resolve` and reads of stored objects -/

theorem resolve_eq (mode f s n : Nat) (hm : mode ≤ 4) (hf : f < M64) (hs : s < M64) (hn : n < M64) :
    resolve mode f s n =
      match rangeSlice mode f s n with
      | some (o, l) => .ok (o, l)
      | none => .error .outOfRange := by
  unfold resolve
  rw [Range.resolve_spec mode f s n hm hf hs hn]
  cases rangeSlice mode f s n with
  | none => simp
  | some p => obtain ⟨o, l⟩ := p; simp

theorem readPhys_range (c : Bytes) (off ln : Nat) (h1 : 1 ≤ ln) (h2 : off + ln ≤ c.length) (hc : c.length < M64) :
    readPhys c (some (off, ln)) = .ok (slice c off ln) := by
  simp only [readPhys]
  rw [resolve_eq 1 off ln c.length (by omega) (by unfold M64 at *; omega) (by unfold M64 at *; omega) hc]
  have h0 : ln ≠ 0 := by omega
  simp [rangeSlice, h0, h2]

theorem readPhys_zero_zero (c : Bytes) (hc : c.length < M64) : readPhys c (some (0, 0)) = .ok c := by
  simp only [readPhys]
  rw [resolve_eq 1 0 0 c.length (by omega) (by unfold M64; omega) (by unfold M64; omega) hc]
  simp [rangeSlice, slice]

/-! ### `copyAll` -/

theorem copyAll_ok_cons (b : Bytes) (rest : List Res) :
    copyAll (.ok b :: rest) = match copyAll rest with | .error e => .error e | .ok bs => .ok (b ++ bs) := rfl

theorem copyAll_single (b : Bytes) : copyAll [.ok b] = .ok b := by simp [copyAll]

theorem copyAll_oks (l : List Bytes) : copyAll (l.map fun c => (.ok c : Res)) = .ok l.flatten := by
  induction l with
  | nil => rfl
  | cons c rest ih => simp [copyAll, ih]

theorem copyAll_append (xs ys : List Res) (a b : Bytes) (hx : copyAll xs = .ok a) (hy : copyAll ys = .ok b) :
    copyAll (xs ++ ys) = .ok (a ++ b) := by
  induction xs generalizing a with
  | nil => simp [copyAll] at hx; subst hx; simpa using hy
  | cons r rest ih =>
    cases r with
    | error e => simp [copyAll] at hx
    | ok x =>
      simp only [List.cons_append, copyAll] at hx ⊢
      cases hr : copyAll rest with
      | error e => simp [hr] at hx
      | ok y =>
        simp only [hr, Except.ok.injEq] at hx
        subst hx
        simp [ih y hr, List.append_assoc]

/-! ### the window of `requiredChildrenIter`

A reader of elements of type `α`: `pl c` is the payload of `c`, `rd c (off, ln)` yields the slice for a
non-empty in-bounds range and `rd c (mid c)` yields the whole payload. -/

section window
variable {α : Type} (rd : α → Option (Nat × Nat) → Res) (mid : α → Option (Nat × Nat)) (pl : α → Bytes)
  (good : α → Prop)
  (hrange : ∀ c off ln, good c → 1 ≤ ln → off + ln ≤ (pl c).length → rd c (some (off, ln)) = .ok (slice (pl c) off ln))
  (hmid : ∀ c, good c → rd c (mid c) = .ok (pl c))
include hrange hmid

theorem rest_spec : ∀ (cs : List α) (seen right : Nat), seen < right →
    right ≤ seen + (cs.map pl).flatten.length → (∀ c ∈ cs, good c) →
    ∃ l lb, rcLast right (cs.map fun c => (pl c).length) seen = some (l, lb) ∧
      copyAll (readRest rd mid cs l lb) = .ok ((cs.map pl).flatten.take (right - seen)) := by
  intro cs
  induction cs with
  | nil => intro seen right h1 h2 _; simp at h2; omega
  | cons c rest ih =>
    intro seen right h1 h2 hg
    have hgc : good c := hg c (by simp)
    simp only [List.map_cons, List.flatten_cons, List.length_append] at h2
    simp only [List.map_cons, rcLast, List.flatten_cons]
    by_cases h : right ≤ seen + (pl c).length
    · rw [if_pos h]
      refine ⟨0, (pl c).length - (seen + (pl c).length - right), rfl, ?_⟩
      simp only [readRest]
      rw [hrange c 0 _ hgc (by omega) (by omega), copyAll_single]
      have e : (pl c).length - (seen + (pl c).length - right) = right - seen := by omega
      rw [e, List.take_append_of_le_length (by omega)]
      simp [slice]
    · rw [if_neg h]
      obtain ⟨l, lb, e1, e2⟩ := ih (seen + (pl c).length) right (by omega) (by omega)
        (fun x hx => hg x (by simp [hx]))
      refine ⟨l + 1, lb, by simp [e1], ?_⟩
      simp only [readRest]
      rw [hmid c hgc, copyAll_ok_cons, e2]
      simp only
      have e : right - seen - (pl c).length = right - (seen + (pl c).length) := by omega
      rw [List.take_append, List.take_of_length_le (l := pl c) (by omega), e]

theorem first_spec : ∀ (cs : List α) (seen left right : Nat), seen ≤ left → left < right →
    right ≤ seen + (cs.map pl).flatten.length → (∀ c ∈ cs, good c) →
    ∃ f fo l lb, rcFirst left right (cs.map fun c => (pl c).length) seen = some (f, fo, some (l, lb)) ∧
      copyAll (readFrom rd mid (fun c => (pl c).length) (cs.drop f) fo l lb) =
        .ok (slice (cs.map pl).flatten (left - seen) (right - left)) := by
  intro cs
  induction cs with
  | nil => intro seen left right h0 h1 h2 _; simp at h2; omega
  | cons c rest ih =>
    intro seen left right h0 h1 h2 hg
    have hgc : good c := hg c (by simp)
    have hgr : ∀ x ∈ rest, good x := fun x hx => hg x (by simp [hx])
    simp only [List.map_cons, List.flatten_cons, List.length_append] at h2
    simp only [List.map_cons, rcFirst, List.flatten_cons]
    by_cases h : seen + (pl c).length ≤ left
    · rw [if_pos h]
      obtain ⟨f, fo, l, lb, e1, e2⟩ := ih (seen + (pl c).length) left right h h1 (by omega) hgr
      refine ⟨f + 1, fo, l, lb, by simp [e1], ?_⟩
      simp only [List.drop_succ_cons]
      rw [e2, slice_append, slice_beyond (pl c) _ _ (by omega)]
      have e3 : left - seen - (pl c).length = left - (seen + (pl c).length) := by omega
      have e4 : (pl c).length - (left - seen) = 0 := by omega
      simp [e3, e4]
    · rw [if_neg h]
      have efo : (pl c).length - (seen + (pl c).length - left) = left - seen := by omega
      by_cases hr : right ≤ seen + (pl c).length
      · refine ⟨0, (pl c).length - (seen + (pl c).length - left), 0,
          (pl c).length - (seen + (pl c).length - right), by simp [rcLast, hr], ?_⟩
        simp only [List.drop_zero, readFrom]
        have elb : (pl c).length - (seen + (pl c).length - right) = right - seen := by omega
        rw [efo, elb, hrange c _ _ hgc (by omega) (by omega), copyAll_single, slice_append]
        have e5 : right - left - ((pl c).length - (left - seen)) = 0 := by omega
        have e6 : right - seen - (left - seen) = right - left := by omega
        rw [e5, slice_len_zero, e6]
        simp
      · obtain ⟨l, lb, e1, e2⟩ := rest_spec rd mid pl good hrange hmid rest (seen + (pl c).length) right
          (by omega) (by omega) hgr
        refine ⟨0, (pl c).length - (seen + (pl c).length - left), l + 1, lb, by simp [rcLast, hr, e1], ?_⟩
        simp only [List.drop_zero, readFrom]
        rw [efo, hrange c _ _ hgc (by omega) (by omega), copyAll_ok_cons, e2]
        simp only
        rw [slice_append]
        have e7 : left - seen - (pl c).length = 0 := by omega
        have e8 : right - left - ((pl c).length - (left - seen)) = right - (seen + (pl c).length) := by omega
        rw [e7, e8]
        have ea : slice (pl c) (left - seen) ((pl c).length - (left - seen)) =
            slice (pl c) (left - seen) (right - left) := slice_congr _ _ _ _ (by omega)
        rw [ea]
        simp [slice]

/-- The children found by `requiredChildrenIter` and copied as a window are exactly `[off, off+ln)`. -/
theorem window_spec (cs : List α) (off ln : Nat) (h1 : 1 ≤ ln)
    (h2 : off + ln ≤ (cs.map pl).flatten.length) (hg : ∀ c ∈ cs, good c) :
    (match requiredChildren off ln (cs.map fun c => (pl c).length) with
     | (none, _, _, _) => (.error .other : Res)
     | (some f, fo, l, lb) => readWindow rd mid (fun c => (pl c).length) cs f fo l lb) =
      .ok (slice (cs.map pl).flatten off ln) := by
  obtain ⟨f, fo, l, lb, e1, e2⟩ := first_spec rd mid pl good hrange hmid cs 0 off (off + ln) (by omega) (by omega)
    (by omega) hg
  unfold requiredChildren
  rw [e1]
  simp only [readWindow]
  rw [if_neg (by omega)]
  have e : f + l - f = l := by omega
  rw [e, e2]
  have e3 : off + ln - off = ln := by omega
  simp [e3]

end window

/-! ### the reverse walk -/

theorem copyChain_cons (x : Bytes × Nat × Nat) (tl : List (Bytes × Nat × Nat)) (a b : Bytes)
    (h1 : copyChain tl = .ok a) (h2 : readPhys x.1 (some (x.2.1, x.2.2)) = .ok b) :
    copyChain (x :: tl) = .ok (a ++ b) := by
  unfold copyChain at *
  simp only [List.reverse_cons, List.map_append, List.map_cons, List.map_nil]
  exact copyAll_append _ _ a b h1 (by rw [h2]; exact copyAll_single b)

theorem buildChain_spec : ∀ (rs : List Bytes) (frm to : Nat), frm < to → (∀ c ∈ rs, c.length < M64) →
    copyChain (buildChain frm to rs rs.reverse.flatten.length) = .ok (slice rs.reverse.flatten frm (to - frm)) := by
  intro rs
  induction rs with
  | nil => intro frm to _ _; simp [buildChain, copyChain, copyAll, slice]
  | cons c rest ih =>
    intro frm to hft hg
    have hc : c.length < M64 := hg c (by simp)
    have ih' := ih frm to hft (fun x hx => hg x (by simp [hx]))
    simp only [List.reverse_cons, List.flatten_append, List.flatten_cons, List.flatten_nil, List.append_nil,
      List.length_append]
    generalize hP : rest.reverse.flatten = P at ih' ⊢
    simp only [buildChain]
    by_cases h : P.length + c.length ≤ frm
    · rw [if_pos h, slice_beyond _ _ _ (by simp; omega)]
      simp [copyChain, copyAll]
    · rw [if_neg h]
      simp only [Nat.add_sub_cancel]
      rw [slice_append]
      by_cases ht : P.length < to
      · rw [if_pos ht]
        simp only [List.singleton_append]
        apply copyChain_cons _ _ _ _ ih'
        simp only
        by_cases hf : frm > P.length
        · simp only [hf, if_true]
          have e1 : P.length + (frm - P.length) + (c.length - (frm - P.length)) = P.length + c.length := by omega
          rw [e1]
          by_cases hcl : to < P.length + c.length
          · rw [if_pos hcl, readPhys_range c _ _ (by omega) (by omega) hc]
            congr 1
            exact slice_congr _ _ _ _ (by omega)
          · rw [if_neg hcl, readPhys_range c _ _ (by omega) (by omega) hc]
            congr 1
            exact slice_congr _ _ _ _ (by omega)
        · simp only [hf, if_false]
          have e0 : frm - P.length = 0 := by omega
          rw [e0]
          simp only [Nat.add_zero]
          by_cases hcl : to < P.length + c.length
          · rw [if_pos hcl]
            rw [readPhys_range c 0 (to - 0 - P.length) (by omega) (by omega) hc]
            congr 1
            exact slice_congr _ _ _ _ (by omega)
          · rw [if_neg hcl]
            by_cases hz : c.length = 0
            · have hnil : c = [] := List.eq_nil_of_length_eq_zero hz
              subst hnil
              simp only [List.length_nil]
              rw [readPhys_zero_zero [] (by unfold M64; simp)]
              simp [slice]
            · rw [readPhys_range c 0 c.length (by omega) (by omega) hc]
              congr 1
              exact slice_congr _ _ _ _ (by omega)
      · rw [if_neg ht]
        simp only [List.nil_append]
        rw [ih']
        have e : to - frm - (P.length - frm) = 0 := by omega
        rw [e, slice_len_zero]
        simp

/-! ### `initFromChild` -/

theorem guardV2_passes (off ln n : Nat) (h : off + ln ≤ n) (hn : n < M64) : guardV2 off ln n = false := by
  unfold guardV2 Gen.v2LinkRangeGuard
  have e : (off + ln) % M64 = off + ln := Nat.mod_eq_of_lt (by omega)
  rw [e]
  simp only [Bool.or_eq_false_iff, decide_eq_false_iff_not]
  omega

theorem guardV1_passes (off ln n : Nat) (h : off + ln ≤ n) (hn : n < M64) : guardV1 off ln n = false := by
  unfold guardV1 Gen.v1RangeGuard
  have e : (off + ln) % M64 = off + ln := Nat.mod_eq_of_lt (by omega)
  rw [e]
  simp only [Bool.or_eq_false_iff, decide_eq_false_iff_not]
  omega

theorem guardEC_passes (off ln n : Nat) (hl : 1 ≤ ln) (h : off + ln ≤ n) (hn : n < M64) : guardEC off ln n = false := by
  unfold guardEC Gen.ecRangeGuard
  simp only [Bool.or_eq_false_iff, decide_eq_false_iff_not]
  unfold M64 at hn
  omega

/-- For an in-bounds non-empty range `initFromChild` starts the walk at the left edge `sr` of the starting
child and gives that child exactly its share of the range — nothing (length 0) when the range ends before it. -/
theorem initFromChild_spec (n cl off ln : Nat) (hl : 1 ≤ ln) (hb : off + ln ≤ n) (hn : n < M64) (hcl : cl ≤ n) :
    initFromChild n cl off ln = .ok (n - cl,
      if n - cl < off + ln then (off - (n - cl), off + ln - (n - cl) - (off - (n - cl))) else (0, 0)) := by
  unfold initFromChild
  have hl0 : ln ≠ 0 := by omega
  simp only [hl0, if_false]
  rw [guardV1_passes off ln n hb hn]
  simp only [Bool.false_eq_true, if_false]
  by_cases h1 : n - cl < off
  · have h2 : n - cl < off + ln := by omega
    have c1 : off + ln > n - cl + (off - (n - cl)) := by omega
    have c2 : min (off + ln - (n - cl)) cl = off + ln - (n - cl) := Nat.min_eq_left (by omega)
    have c3 : off + ln - (n - cl) > off - (n - cl) := by omega
    have c4 : off + ln - (n - cl) - (off - (n - cl)) > 0 := by omega
    simp only [h1, h2, c1, c2, c3, c4, if_true]
  · by_cases h2 : n - cl < off + ln
    · have c1 : off + ln > n - cl + 0 := by omega
      have c2 : min (off + ln - (n - cl)) cl = off + ln - (n - cl) := Nat.min_eq_left (by omega)
      have c3 : off + ln - (n - cl) > 0 := by omega
      have c5 : off - (n - cl) = 0 := by omega
      simp only [h1, h2, c1, c2, c3, c5, if_true, if_false, Nat.sub_zero]
    · have c1 : ¬ (off + ln > n - cl + 0) := by omega
      simp only [h1, h2, c1, if_false, Nat.lt_irrefl]

/-! ### erasure-coded parts: the same window over equal-size parts, with unavailable parts recovered -/

theorem rcLast_prefix (right : Nat) (ys : List Nat) : ∀ (xs : List Nat) (seen : Nat), seen < right →
    right ≤ seen + xs.sum → rcLast right (xs ++ ys) seen = rcLast right xs seen := by
  intro xs
  induction xs with
  | nil => intro seen h1 h2; simp at h2; omega
  | cons x rest ih =>
    intro seen h1 h2
    simp only [List.sum_cons] at h2
    simp only [List.cons_append, rcLast]
    by_cases h : right ≤ seen + x
    · simp [h]
    · simp only [h, if_false]
      rw [ih (seen + x) (by omega) (by omega)]

theorem rcFirst_prefix (left right : Nat) (ys : List Nat) : ∀ (xs : List Nat) (seen : Nat), seen ≤ left →
    left < right → right ≤ seen + xs.sum → rcFirst left right (xs ++ ys) seen = rcFirst left right xs seen := by
  intro xs
  induction xs with
  | nil => intro seen h0 h1 h2; simp at h2; omega
  | cons x rest ih =>
    intro seen h0 h1 h2
    simp only [List.sum_cons] at h2
    simp only [List.cons_append, rcFirst]
    by_cases h : seen + x ≤ left
    · simp only [h, if_true]
      rw [ih (seen + x) h h1 (by omega)]
    · simp only [h, if_false]
      have := rcLast_prefix right ys (x :: rest) seen (by omega) (by simp only [List.sum_cons]; omega)
      simp only [List.cons_append] at this
      rw [this]

section ecparts
variable (per : Nat) (hper1 : 1 ≤ per) (hperM : per < M64)
include hper1 hperM

theorem recAll_spec : ∀ (ps : List (Bool × Bytes)) (seen right : Nat), seen < right →
    right ≤ seen + (ps.map (·.2)).flatten.length → (∀ x ∈ ps, x.2.length = per) →
    ∃ l lb, rcLast right (ps.map fun x => x.2.length) seen = some (l, lb) ∧
      copyAll (recAll per ps l lb) = .ok ((ps.map (·.2)).flatten.take (right - seen)) := by
  intro ps
  induction ps with
  | nil => intro seen right h1 h2 _; simp at h2; omega
  | cons x rest ih =>
    intro seen right h1 h2 hg
    obtain ⟨a, c⟩ := x
    have hc : c.length = per := hg (a, c) (by simp)
    simp only [List.map_cons, List.flatten_cons, List.length_append] at h2
    simp only [List.map_cons, rcLast, List.flatten_cons]
    by_cases h : right ≤ seen + c.length
    · rw [if_pos h]
      refine ⟨0, c.length - (seen + c.length - right), rfl, ?_⟩
      simp only [recAll]
      have e : c.length - (seen + c.length - right) = right - seen := by omega
      rw [copyAll_single, e, List.take_append_of_le_length (by omega)]
    · rw [if_neg h]
      obtain ⟨l, lb, e1, e2⟩ := ih (seen + c.length) right (by omega) (by omega)
        (fun y hy => hg y (by simp [hy]))
      refine ⟨l + 1, lb, by simp [e1], ?_⟩
      simp only [recAll]
      rw [copyAll_ok_cons, e2]
      simp only
      have e : right - seen - c.length = right - (seen + c.length) := by omega
      rw [List.take_of_length_le (l := c) (by omega), List.take_append,
        List.take_of_length_le (l := c) (by omega), e]

theorem ecRest_spec : ∀ (ps : List (Bool × Bytes)) (seen right : Nat), seen < right →
    right ≤ seen + (ps.map (·.2)).flatten.length → (∀ x ∈ ps, x.2.length = per) →
    ∃ l lb, rcLast right (ps.map fun x => x.2.length) seen = some (l, lb) ∧
      copyAll (ecRest true per ps l lb) = .ok ((ps.map (·.2)).flatten.take (right - seen)) := by
  intro ps
  induction ps with
  | nil => intro seen right h1 h2 _; simp at h2; omega
  | cons x rest ih =>
    intro seen right h1 h2 hg
    obtain ⟨a, c⟩ := x
    cases a with
    | false =>
      obtain ⟨l, lb, e1, e2⟩ := recAll_spec per hper1 hperM ((false, c) :: rest) seen right h1 h2 hg
      exact ⟨l, lb, e1, by simpa [ecRest] using e2⟩
    | true =>
      have hc : c.length = per := hg (true, c) (by simp)
      have hcM : c.length < M64 := by omega
      simp only [List.map_cons, List.flatten_cons, List.length_append] at h2
      simp only [List.map_cons, rcLast, List.flatten_cons]
      by_cases h : right ≤ seen + c.length
      · rw [if_pos h]
        refine ⟨0, c.length - (seen + c.length - right), rfl, ?_⟩
        simp only [ecRest, if_true]
        have e : c.length - (seen + c.length - right) = right - seen := by omega
        rw [e, readPhys_range c 0 _ (by omega) (by omega) hcM, copyAll_single,
          List.take_append_of_le_length (by omega)]
        simp [slice]
      · rw [if_neg h]
        obtain ⟨l, lb, e1, e2⟩ := ih (seen + c.length) right (by omega) (by omega)
          (fun y hy => hg y (by simp [hy]))
        refine ⟨l + 1, lb, by simp [e1], ?_⟩
        simp only [ecRest, if_true]
        rw [readPhys_range c 0 per hper1 (by omega) hcM, slice_zero_all c per (by omega), copyAll_ok_cons, e2]
        simp only
        have e : right - seen - c.length = right - (seen + c.length) := by omega
        rw [List.take_append, List.take_of_length_le (l := c) (by omega), e]

theorem ecFrom_spec : ∀ (ps : List (Bool × Bytes)) (seen left right : Nat), seen ≤ left → left < right →
    right ≤ seen + (ps.map (·.2)).flatten.length → (∀ x ∈ ps, x.2.length = per) →
    ∃ f fo l lb, rcFirst left right (ps.map fun x => x.2.length) seen = some (f, fo, some (l, lb)) ∧
      copyAll (ecFrom true per (ps.drop f) fo l lb) =
        .ok (slice (ps.map (·.2)).flatten (left - seen) (right - left)) := by
  intro ps
  induction ps with
  | nil => intro seen left right h0 h1 h2 _; simp at h2; omega
  | cons x rest ih =>
    intro seen left right h0 h1 h2 hg
    obtain ⟨a, c⟩ := x
    have hc : c.length = per := hg (a, c) (by simp)
    have hcM : c.length < M64 := by omega
    have hgr : ∀ y ∈ rest, y.2.length = per := fun y hy => hg y (by simp [hy])
    simp only [List.map_cons, List.flatten_cons, List.length_append] at h2
    simp only [List.map_cons, rcFirst, List.flatten_cons]
    by_cases h : seen + c.length ≤ left
    · rw [if_pos h]
      obtain ⟨f, fo, l, lb, e1, e2⟩ := ih (seen + c.length) left right h h1 (by omega) hgr
      refine ⟨f + 1, fo, l, lb, by simp [e1], ?_⟩
      simp only [List.drop_succ_cons]
      rw [e2, slice_append, slice_beyond c _ _ (by omega)]
      have e3 : left - seen - c.length = left - (seen + c.length) := by omega
      have e4 : c.length - (left - seen) = 0 := by omega
      simp [e3, e4]
    · rw [if_neg h]
      have efo : c.length - (seen + c.length - left) = left - seen := by omega
      by_cases hr : right ≤ seen + c.length
      · refine ⟨0, c.length - (seen + c.length - left), 0, c.length - (seen + c.length - right),
          by simp [rcLast, hr], ?_⟩
        have elb : c.length - (seen + c.length - right) = right - seen := by omega
        have e6 : right - seen - (left - seen) = right - left := by omega
        have e5 : right - left - (c.length - (left - seen)) = 0 := by omega
        have hhead : copyAll (ecFrom true per ((a, c) :: rest) (left - seen) 0 (right - seen)) =
            .ok (slice c (left - seen) (right - left)) := by
          cases a with
          | true =>
            simp only [ecFrom, if_true]
            rw [readPhys_range c _ _ (by omega) (by omega) hcM, copyAll_single, e6]
          | false =>
            simp only [ecFrom, Bool.false_eq_true, if_false, if_true]
            rw [copyAll_single, List.drop_take, e6]
            rfl
        simp only [List.drop_zero]
        rw [efo, elb, hhead, slice_append, e5, slice_len_zero]
        simp
      · have e7 : left - seen - c.length = 0 := by omega
        have e8 : right - left - (c.length - (left - seen)) = right - (seen + c.length) := by omega
        have ea : slice c (left - seen) (c.length - (left - seen)) = slice c (left - seen) (right - left) :=
          slice_congr _ _ _ _ (by omega)
        cases a with
        | true =>
          obtain ⟨l, lb, e1, e2⟩ := ecRest_spec per hper1 hperM rest (seen + c.length) right (by omega) (by omega) hgr
          refine ⟨0, c.length - (seen + c.length - left), l + 1, lb, by simp [rcLast, hr, e1], ?_⟩
          simp only [List.drop_zero, ecFrom, if_true]
          rw [efo, ← hc, readPhys_range c _ _ (by omega) (by omega) hcM, copyAll_ok_cons, hc, e2]
          simp only
          rw [slice_append, e7, e8, ← hc, ea]
          simp [slice]
        | false =>
          obtain ⟨l, lb, e1, e2⟩ := recAll_spec per hper1 hperM rest (seen + c.length) right (by omega) (by omega) hgr
          refine ⟨0, c.length - (seen + c.length - left), l + 1, lb, by simp [rcLast, hr, e1], ?_⟩
          simp only [List.drop_zero, ecFrom, Bool.false_eq_true, if_false, if_true]
          rw [efo, copyAll_ok_cons, e2]
          simp only
          rw [slice_append, e7, e8, ← ea, ← hc, List.take_of_length_le (l := c) (Nat.le_refl _)]
          simp [slice]
          exact (List.take_of_length_le (by simp)).symm

end ecparts

end NeoFS.Assemble
