import NeoFS.Lemmas.FSTreeInv
/-! Writers of the file-tree model under an oracle that injects nothing: every call succeeds. Core Lean only. -/
namespace NeoFS.FSTree

/-- from here on the oracle injects nothing and the process has not been stopped -/
def Clean (o : Oracle) (k : K) : Prop := k.crashed = false ∧ ∀ i, k.n ≤ i → o i = none

theorem Clean.next {o : Oracle} {k k' : K} (h : Clean o k) (hc : k'.crashed = false) (hn : k.n ≤ k'.n) : Clean o k' :=
  ⟨hc, fun i hi => h.2 i (Nat.le_trans hn hi)⟩

theorem faultAt_clean {o : Oracle} {k : K} (h : Clean o k) : faultAt o k = none := by
  unfold faultAt; rw [h.1]; simp [h.2 k.n (Nat.le_refl _)]

theorem sysSync_clean {o : Oracle} {k : K} (h : Clean o k) : (sysSync o k).2 = true ∧ Clean o (sysSync o k).1 := by
  unfold sysSync; rw [faultAt_clean h]
  exact ⟨rfl, h.next h.1 (by simp [bump])⟩

theorem sysOpen_clean {o : Oracle} {k : K} (h : Clean o k) :
    (sysOpen o k).2 = some k.inodes.length ∧ Clean o (sysOpen o k).1 := by
  unfold sysOpen; rw [faultAt_clean h]
  exact ⟨rfl, h.next h.1 (by simp [bump])⟩

theorem openBatch_clean {o : Oracle} {k : K} (h : Clean o k) :
    (openBatch o k).2 = some { ino := k.inodes.length } ∧ Clean o (openBatch o k).1 := by
  have := sysOpen_clean h
  unfold openBatch
  have e : sysOpen o k = ((sysOpen o k).1, some k.inodes.length) := by rw [← this.1]
  rw [e]; exact ⟨rfl, this.2⟩

theorem sysWrite_clean {o : Oracle} {k : K} (h : Clean o k) (i : Nat) (b : Bytes) :
    (sysWrite o k i b).2 = true ∧ Clean o (sysWrite o k i b).1 := by
  unfold sysWrite; rw [faultAt_clean h]
  exact ⟨rfl, h.next h.1 (by simp [bump])⟩

theorem sysLink_clean {o : Oracle} {k : K} (h : Clean o k) (i a : Nat) :
    (sysLink o k i a).2 ≠ .err ∧ Clean o (sysLink o k i a).1 := by
  unfold sysLink; rw [faultAt_clean h]
  simp only
  split
  · exact ⟨by simp, h.next h.1 (by simp [bump])⟩
  · exact ⟨by simp, h.next h.1 (by simp [bump])⟩

theorem intSync_clean {o : Oracle} {k : K} (h : Clean o k) (cfg : Cfg) (b : Batch) :
    (intSync cfg o k b).2.err = b.err ∧ Clean o (intSync cfg o k b).1 ∧
    (intSync cfg o k b).1.done.lookup b.ino = some b.err := by
  unfold intSync
  simp only
  split
  · have s1 := sysSync_clean h
    have s2 := sysSync_clean s1.2
    simp only [s1.1, s2.1]
    refine ⟨by simp, s2.2.next s2.2.1 (Nat.le_refl _), by simp [List.lookup]⟩
  · have s2 := sysSync_clean h
    simp only [s2.1]
    refine ⟨by simp, s2.2.next s2.2.1 (Nat.le_refl _), by simp [List.lookup]⟩

theorem sbWrite_clean {o : Oracle} {k : K} (h : Clean o k) (cfg : Cfg) (b : Batch) (a : Nat) (d : Bytes) :
    (sbWrite cfg o k b a d).2.2 = true ∧ Clean o (sbWrite cfg o k b a d).1 ∧ (sbWrite cfg o k b a d).1.done = k.done ∧
    (sbWrite cfg o k b a d).2.1.err = b.err ∧ (sbWrite cfg o k b a d).2.1.ino = b.ino ∧ (sbWrite cfg o k b a d).2.1.ready = b.ready := by
  unfold sbWrite
  simp only
  have w := sysWrite_clean h b.ino (record a d)
  have wp := (sysWrite_spec o k b.ino (record a d)).1
  simp only [w.1, Bool.not_true, Bool.false_eq_true, if_false]
  have l := sysLink_clean w.2 b.ino a
  have lp := (sysLink_spec o (sysWrite o k b.ino (record a d)).1 b.ino a).1
  split
  · rename_i he; exact absurd he l.1
  · exact ⟨rfl, l.2, by rw [lp.2.2.2, wp.2.2.2], rfl, rfl, rfl⟩

theorem writeFile_clean {o : Oracle} {k : K} (h : Clean o k) (a : Nat) (d : Bytes) :
    (writeFile o k a d).2 = true ∧ Clean o (writeFile o k a d).1 := by
  unfold writeFile
  simp only
  have r := sysOpen_clean h
  rw [r.1]
  simp only
  have w := sysWrite_clean r.2 k.inodes.length d
  simp only [w.1, if_true, Bool.true_and]
  have l := sysLink_clean w.2 k.inodes.length a
  have c := sysSync_clean l.2
  exact ⟨by simp [c.1, l.1], c.2⟩

theorem batchLoop_clean {o : Oracle} (cfg : Cfg) (items : List (Nat × Bytes)) :
    ∀ (k : K) (b : Batch), Clean o k → (batchLoop cfg o k b items).2.2 = true ∧ Clean o (batchLoop cfg o k b items).1 ∧
      (batchLoop cfg o k b items).2.1.err = b.err := by
  induction items with
  | nil => intro k b h; exact ⟨rfl, h, rfl⟩
  | cons it rest ih =>
    intro k b h
    obtain ⟨a, d⟩ := it
    unfold batchLoop
    have w := sbWrite_clean h cfg b a d
    simp only [w.1, if_true]
    have := ih _ (sbWrite cfg o k b a d).2.1 w.2.1
    exact ⟨this.1, this.2.1, by rw [this.2.2, w.2.2.2.1]⟩

theorem writeBatch_clean {o : Oracle} {k : K} (h : Clean o k) (cfg : Cfg) (items : List (Nat × Bytes)) :
    (writeBatch cfg o k items).2 = true ∧ Clean o (writeBatch cfg o k items).1 := by
  unfold writeBatch
  simp only
  have r := sysOpen_clean h
  rw [r.1]
  simp only
  have l := batchLoop_clean (o := o) cfg items (sysOpen o k).1 { ino := k.inodes.length, hasReady := false } r.2
  simp only [l.1, Bool.not_true, Bool.false_eq_true, if_false]
  have s := intSync_clean l.2.1 cfg (batchLoop cfg o (sysOpen o k).1 { ino := k.inodes.length, hasReady := false } items).2.1
  exact ⟨by rw [s.1, l.2.2]; rfl, s.2.1⟩

/-- what `wcTail` leaves behind when nothing fails -/
theorem wcTail_clean {o : Oracle} {k : K} (h : Clean o k) (cfg : Cfg) (b : Batch) (a : Nat) (d : Bytes) (hbr : b.ready = false) :
    (wcTail cfg o k b a d).2 = .pending b.ino ∧ Clean o (wcTail cfg o k b a d).1 ∧
    ∃ b', (wcTail cfg o k b a d).1.batch = some b' ∧ b'.ino = b.ino ∧
      (b'.ready = true → (wcTail cfg o k b a d).1.done.lookup b.ino = some b.err) ∧ (b'.ready = false → b'.err = b.err) := by
  unfold wcTail
  simp only
  have w := sbWrite_clean h cfg b a d
  simp only [w.1, if_true]
  by_cases hrot : rotateTest cfg true (sbWrite cfg o k b a d).2.1.cnt (sbWrite cfg o k b a d).2.1.size = true
  · simp only [hrot, if_true]
    have s := intSync_clean w.2.1 cfg (sbWrite cfg o k b a d).2.1
    have sp := intSync_spec cfg o (sbWrite cfg o k b a d).1 (sbWrite cfg o k b a d).2.1
    refine ⟨trivial, s.2.1.next s.2.1.1 (Nat.le_refl _), _, rfl, by rw [sp.2.2.2.2.2.2.1, w.2.2.2.2.1], ?_, ?_⟩
    · intro _
      have := s.2.2
      rw [w.2.2.2.2.1, w.2.2.2.1] at this
      exact this
    · intro hf; rw [sp.2.2.2.2.2.1] at hf; cases hf
  · simp only [hrot, Bool.false_eq_true, if_false]
    refine ⟨trivial, w.2.1.next w.2.1.1 (Nat.le_refl _), _, rfl, w.2.2.2.2.1, ?_, fun _ => w.2.2.2.1⟩
    intro ht; rw [w.2.2.2.2.2, hbr] at ht; cases ht

/-- writes that meet no failure succeed (`FSTree.Put` on the O_TMPFILE writer) -/
theorem put_clean {P} {o : Oracle} {k : K} (cfg : Cfg) (hg : cfg.generic = false) (hs : SInv P k) (h : Clean o k)
    (a : Nat) (d : Bytes) (hd : d ≠ []) : (put cfg o k a d).2 = .ok ∧ Clean o (put cfg o k a d).1 := by
  unfold put
  simp only [hd, if_false, hg, Bool.false_eq_true]
  split
  · have := writeFile_clean h a d
    simp only [this.1, if_true]
    exact ⟨trivial, this.2⟩
  · -- combined write, then the timer
    have key : ∀ (k1 : K) (b : Batch), Clean o k1 → b.ready = false → b.err = false →
        (match (wcTail cfg o k1 b a d).2 with
          | .blocked => ((wcTail cfg o k1 b a d).1, Out.blocked)
          | .failed => ((wcTail cfg o k1 b a d).1, Out.err)
          | .pending i => (tick cfg o (wcTail cfg o k1 b a d).1,
              if doneErr (tick cfg o (wcTail cfg o k1 b a d).1) i then Out.err else Out.ok)).2 = .ok ∧
        Clean o (match (wcTail cfg o k1 b a d).2 with
          | .blocked => ((wcTail cfg o k1 b a d).1, Out.blocked)
          | .failed => ((wcTail cfg o k1 b a d).1, Out.err)
          | .pending i => (tick cfg o (wcTail cfg o k1 b a d).1,
              if doneErr (tick cfg o (wcTail cfg o k1 b a d).1) i then Out.err else Out.ok)).1 := by
      intro k1 b hc hbr hbe
      obtain ⟨tr, tc, b', hb', hino, hready, hopen⟩ := wcTail_clean hc cfg b a d hbr
      rw [tr]
      simp only
      unfold tick
      rw [hb']
      simp only
      by_cases hr : b'.ready = true
      · simp only [hr, if_true]
        have := hready hr
        simp only [doneErr, this, hbe, Option.getD_some, Bool.false_eq_true, if_false]
        exact ⟨trivial, tc⟩
      · have hr' : b'.ready = false := by simpa using hr
        simp only [hr', Bool.false_eq_true, if_false]
        have s := intSync_clean tc cfg b'
        have e1 : (intSync cfg o (wcTail cfg o k1 b a d).1 b').1.done.lookup b.ino = some false := by
          have := s.2.2; rw [hino, hopen hr', hbe] at this; exact this
        simp only [doneErr, e1, Option.getD_some, Bool.false_eq_true, if_false]
        exact ⟨trivial, s.2.1.next s.2.1.1 (Nat.le_refl _)⟩
    unfold writeCombined
    simp only [hs.lock, Bool.false_eq_true, if_false]
    cases hbt : k.batch with
    | none =>
      simp only [if_true]
      have ob := openBatch_clean h
      rw [ob.1]
      exact key _ _ ob.2 rfl rfl
    | some b =>
      by_cases hr : b.ready = true
      · simp only [hr, if_true]
        have ob := openBatch_clean h
        rw [ob.1]
        exact key _ _ ob.2 rfl rfl
      · have hr' : b.ready = false := by simpa using hr
        simp only [hr', Bool.false_eq_true, if_false]
        exact key _ _ h hr' (hs.binv b hbt hr').2.1

end NeoFS.FSTree
