import NeoFS.Model.Governance
import Mathlib.Data.List.Nodup
import Mathlib.Data.List.Perm.Subperm
import Mathlib.Data.List.Count
/-! Invariants of the two loops of `newAlphabetList` and of `updateInnerRing` (for `Props/C36.lean`). -/
namespace NeoFS.Gov

/-- a key that is not a current alphabet member -/
def isNew (cur : List Nat) (y : Nat) : Bool := decide (y ∉ cur)

@[simp] theorem isNew_iff (cur : List Nat) (y : Nat) : isNew cur y = true ↔ y ∉ cur := by simp [isNew]

/-! ### scan -/

theorem scan_subset (ln limit : Nat) (cur : List Nat) :
    ∀ (xs res seen : List Nat) (k : Nat) (y : Nat),
      y ∈ (scan ln limit cur xs res seen k).1 → y ∈ res ∨ y ∈ xs := by
  intro xs
  induction xs with
  | nil => intro res seen k y h; simp [scan] at h; exact Or.inl h
  | cons x xs ih =>
    intro res seen k y h
    unfold scan at h
    split_ifs at h with h1 h2 h3
    · exact Or.inl h
    · rcases ih _ _ _ _ h with h | h
      · simp at h; rcases h with h | h <;> simp [h]
      · simp [h]
    · rcases ih _ _ _ _ h with h | h <;> simp [h]
    · rcases ih _ _ _ _ h with h | h
      · simp at h; rcases h with h | h <;> simp [h]
      · simp [h]

theorem scan_nodup (ln limit : Nat) (cur : List Nat) :
    ∀ (xs res seen : List Nat) (k : Nat), res.Nodup → xs.Nodup → (∀ x ∈ xs, x ∉ res) →
      (scan ln limit cur xs res seen k).1.Nodup := by
  intro xs
  induction xs with
  | nil => intro res seen k h _ _; simpa [scan] using h
  | cons x xs ih =>
    intro res seen k hr hx hd
    have hxn : x ∉ xs := (List.nodup_cons.mp hx).1
    have hxs : xs.Nodup := (List.nodup_cons.mp hx).2
    have hxr : x ∉ res := hd x (by simp)
    have hres' : (res ++ [x]).Nodup := by
      rw [List.nodup_append]; refine ⟨hr, by simp, ?_⟩
      intro a ha b hb; simp at hb; subst hb; intro e; subst e; exact hxr ha
    have hd' : ∀ y ∈ xs, y ∉ res ++ [x] := by
      intro y hy; simp; exact ⟨hd y (by simp [hy]), fun e => hxn (e ▸ hy)⟩
    unfold scan
    split_ifs with h1 h2 h3
    · exact hr
    · exact ih _ _ _ hres' hxs hd'
    · exact ih _ _ _ hr hxs (fun y hy => hd y (by simp [hy]))
    · exact ih _ _ _ hres' hxs hd'

theorem scan_length (ln limit : Nat) (cur : List Nat) :
    ∀ (xs res seen : List Nat) (k : Nat), res.length ≤ ln → (scan ln limit cur xs res seen k).1.length ≤ ln := by
  intro xs
  induction xs with
  | nil => intro res seen k h; simpa [scan] using h
  | cons x xs ih =>
    intro res seen k h
    unfold scan
    split_ifs with h1 h2 h3
    · exact h
    · exact ih _ _ _ (by simp; omega)
    · exact ih _ _ _ h
    · exact ih _ _ _ (by simp; omega)

/-- the counter `newNodes` is the number of non-members in the result and never exceeds the limit -/
theorem scan_count (ln limit : Nat) (cur : List Nat) :
    ∀ (xs res seen : List Nat) (k : Nat), res.countP (isNew cur) = k → k ≤ limit →
      let r := scan ln limit cur xs res seen k
      r.1.countP (isNew cur) = r.2.2 ∧ r.2.2 ≤ limit := by
  intro xs
  induction xs with
  | nil => intro res seen k h hk; simp [scan, h, hk]
  | cons x xs ih =>
    intro res seen k h hk
    unfold scan
    split_ifs with h1 h2 h3
    · exact ⟨h, hk⟩
    · exact ih _ _ _ (by simp [List.countP_append, h, h2]) hk
    · exact ih _ _ _ h hk
    · exact ih _ _ _ (by simp [List.countP_append, h, h2]) (by omega)

/-- `seen` is exactly the current members that made it into the result, without repetition -/
theorem scan_seen (ln limit : Nat) (cur : List Nat) :
    ∀ (xs res seen : List Nat) (k : Nat), (∀ y, y ∈ seen ↔ (y ∈ res ∧ y ∈ cur)) → seen.Nodup →
      (∀ x ∈ xs, x ∉ res) → xs.Nodup →
      let r := scan ln limit cur xs res seen k
      (∀ y, y ∈ r.2.1 ↔ (y ∈ r.1 ∧ y ∈ cur)) ∧ r.2.1.Nodup := by
  intro xs
  induction xs with
  | nil => intro res seen k h hn _ _; simp [scan]; exact ⟨h, hn⟩
  | cons x xs ih =>
    intro res seen k h hn hd hx
    have hxn : x ∉ xs := (List.nodup_cons.mp hx).1
    have hxs : xs.Nodup := (List.nodup_cons.mp hx).2
    have hxr : x ∉ res := hd x (by simp)
    have hd' : ∀ y ∈ xs, y ∉ res ++ [x] := by
      intro y hy; simp; exact ⟨hd y (by simp [hy]), fun e => hxn (e ▸ hy)⟩
    unfold scan
    split_ifs with h1 h2 h3
    · exact ⟨h, hn⟩
    · refine ih _ _ _ ?_ ?_ hd' hxs
      · intro y; simp only [List.mem_cons, List.mem_append, List.not_mem_nil, or_false]
        constructor
        · rintro (rfl | hy)
          · exact ⟨Or.inr rfl, h2⟩
          · exact ⟨Or.inl ((h y).mp hy).1, ((h y).mp hy).2⟩
        · rintro ⟨hy | rfl, hc⟩
          · exact Or.inr ((h y).mpr ⟨hy, hc⟩)
          · exact Or.inl rfl
      · rw [List.nodup_cons]; exact ⟨fun hs => hxr ((h x).mp hs).1, hn⟩
    · exact ih _ _ _ h hn (fun y hy => hd y (by simp [hy])) hxs
    · refine ih _ _ _ ?_ hn hd' hxs
      intro y; simp only [List.mem_append, List.mem_cons, List.not_mem_nil, or_false]
      constructor
      · intro hy; exact ⟨Or.inl ((h y).mp hy).1, ((h y).mp hy).2⟩
      · rintro ⟨hy | rfl, hc⟩
        · exact (h y).mpr ⟨hy, hc⟩
        · exact absurd hc h2

/-! ### topUp -/

theorem topUp_subset (ln : Nat) (seen : List Nat) :
    ∀ (xs res : List Nat) (y : Nat), y ∈ topUp ln seen xs res → y ∈ res ∨ (y ∈ xs ∧ y ∉ seen) := by
  intro xs
  induction xs with
  | nil => intro res y h; simp [topUp] at h; exact Or.inl h
  | cons x xs ih =>
    intro res y h
    unfold topUp at h
    split_ifs at h with h1 h2
    · exact Or.inl h
    · rcases ih _ _ h with h | h
      · exact Or.inl h
      · exact Or.inr ⟨by simp [h.1], h.2⟩
    · rcases ih _ _ h with h | h
      · simp at h; rcases h with h | h
        · exact Or.inl h
        · subst h; exact Or.inr ⟨by simp, h2⟩
      · exact Or.inr ⟨by simp [h.1], h.2⟩

theorem topUp_mem_res (ln : Nat) (seen : List Nat) :
    ∀ (xs res : List Nat) (y : Nat), y ∈ res → y ∈ topUp ln seen xs res := by
  intro xs
  induction xs with
  | nil => intro res y h; simpa [topUp] using h
  | cons x xs ih =>
    intro res y h
    unfold topUp
    split_ifs with h1 h2
    · exact h
    · exact ih _ _ h
    · exact ih _ _ (by simp [h])

theorem topUp_nodup (ln : Nat) (seen : List Nat) :
    ∀ (xs res : List Nat), res.Nodup → xs.Nodup → (∀ x ∈ xs, x ∉ seen → x ∉ res) →
      (topUp ln seen xs res).Nodup := by
  intro xs
  induction xs with
  | nil => intro res h _ _; simpa [topUp] using h
  | cons x xs ih =>
    intro res hr hx hd
    have hxn : x ∉ xs := (List.nodup_cons.mp hx).1
    have hxs : xs.Nodup := (List.nodup_cons.mp hx).2
    unfold topUp
    split_ifs with h1 h2
    · exact hr
    · exact ih _ hr hxs (fun y hy hs => hd y (by simp [hy]) hs)
    · have hxr : x ∉ res := hd x (by simp) h2
      refine ih _ ?_ hxs ?_
      · rw [List.nodup_append]; refine ⟨hr, by simp, ?_⟩
        intro a ha b hb; simp at hb; subst hb; intro e; subst e; exact hxr ha
      · intro y hy hs; simp
        exact ⟨hd y (by simp [hy]) hs, fun e => hxn (e ▸ hy)⟩

theorem topUp_count (ln : Nat) (seen cur : List Nat) :
    ∀ (xs res : List Nat), (∀ x ∈ xs, x ∈ cur) →
      (topUp ln seen xs res).countP (isNew cur) = res.countP (isNew cur) := by
  intro xs
  induction xs with
  | nil => intro res _; simp [topUp]
  | cons x xs ih =>
    intro res h
    have hx : x ∈ cur := h x (by simp)
    unfold topUp
    split_ifs with h1 h2
    · rfl
    · exact ih _ (fun y hy => h y (by simp [hy]))
    · rw [ih _ (fun y hy => h y (by simp [hy]))]; simp [List.countP_append, hx]

theorem topUp_length (ln : Nat) (seen : List Nat) :
    ∀ (xs res : List Nat), res.length ≤ ln →
      (topUp ln seen xs res).length = min ln (res.length + xs.countP (fun y => decide (y ∉ seen))) := by
  intro xs
  induction xs with
  | nil => intro res h; simp [topUp]; omega
  | cons x xs ih =>
    intro res h
    unfold topUp
    split_ifs with h1 h2
    · omega
    · rw [ih _ h]; simp [List.countP_cons, h2]
    · rw [ih _ (by simp; omega)]; simp [List.countP_cons, h2]; omega

/-- counting: members of a duplicate-free list that fall into a duplicate-free sub-collection -/
theorem countP_mem_le (cur seen : List Nat) (hc : cur.Nodup) :
    cur.countP (fun y => decide (y ∈ seen)) ≤ seen.length := by
  rw [List.countP_eq_length_filter]
  have hn : (cur.filter fun y => decide (y ∈ seen)).Nodup := hc.filter _
  have hs : (cur.filter fun y => decide (y ∈ seen)) ⊆ seen := by
    intro y hy; simpa using (List.mem_filter.mp hy).2
  exact (List.subperm_of_subset hn hs).length_le

theorem countP_mem_add_not (seen : List Nat) : ∀ cur : List Nat,
    cur.countP (fun y => decide (y ∈ seen)) + cur.countP (fun y => decide (y ∉ seen)) = cur.length := by
  intro cur
  induction cur with
  | nil => rfl
  | cons x xs ih =>
    by_cases h : x ∈ seen
    · simp only [List.countP_cons, h, decide_true, if_true, not_true_eq_false, decide_false,
        Bool.false_eq_true, if_false, List.length_cons]; omega
    · simp only [List.countP_cons, h, decide_true, if_true, not_false_eq_true, decide_false,
        Bool.false_eq_true, if_false, List.length_cons]; omega

theorem countP_not_mem_ge (cur seen : List Nat) (hc : cur.Nodup) :
    cur.length - seen.length ≤ cur.countP (fun y => decide (y ∉ seen)) := by
  have h1 := countP_mem_le cur seen hc
  have h2 := countP_mem_add_not seen cur
  omega

/-! ### updateInnerRing -/

theorem indexOf?_getElem (x : Nat) : ∀ (l : List Nat) (j : Nat), indexOf? x l = some j → l[j]? = some x := by
  intro l
  induction l with
  | nil => intro j h; simp [indexOf?] at h
  | cons y ys ih =>
    intro j h
    unfold indexOf? at h
    split_ifs at h with e
    · simp at h; subst h; simp [e]
    · cases hi : indexOf? x ys with
      | none => simp [hi] at h
      | some i =>
        simp [hi] at h; subst h
        simpa using ih i hi

theorem indexOf?_none (x : Nat) : ∀ (l : List Nat), indexOf? x l = none ↔ x ∉ l := by
  intro l
  induction l with
  | nil => simp [indexOf?]
  | cons y ys ih =>
    unfold indexOf?
    split_ifs with e
    · simp [e]
    · simp [ih, e]

theorem indexOf?_of_getElem (x : Nat) : ∀ (l : List Nat) (j : Nat), l.Nodup → l[j]? = some x → indexOf? x l = some j := by
  intro l
  induction l with
  | nil => intro j _ h; simp at h
  | cons y ys ih =>
    intro j hn h
    have hy : y ∉ ys := (List.nodup_cons.mp hn).1
    unfold indexOf?
    cases j with
    | zero => simp at h; simp [h]
    | succ i =>
      simp at h
      have hx : x ∈ ys := List.mem_of_getElem? h
      have : x ≠ y := fun e => hy (e ▸ hx)
      simp [this, ih i (List.nodup_cons.mp hn).2 h]

end NeoFS.Gov
