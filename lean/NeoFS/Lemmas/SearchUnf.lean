/-
C03, empty query (`searchUnfiltered`): over the visited object-id keys the page is the first `count` available ids;
no cursor is returned only when nothing is left; a returned cursor is the id of the last returned object.
(A cursor may be followed by one empty page when only unavailable objects remain - the code decides on the cursor
before it looks at the availability of what follows.)
-/
import NeoFS.Lemmas.SearchEval
namespace NeoFS.Search
open NeoFS.Int256

theorem keyID_split (id : Nat) (h : id < two256) : (keyID id).length = oidLen + 1 ∧ fromBE ((keyID id).drop 1) = id := by
  unfold keyID oidBytes
  refine ⟨by simp [beBytes_length, oidLen], ?_⟩
  simp only [List.drop_succ_cons, List.drop_zero]
  rw [two256_eq] at h
  exact fromBE_beBytes 32 id h

theorem scanUnfiltered_spec (avail : Nat → Bool) (count : Nat) (hcount : 1 ≤ count) :
    ∀ (ids : List Nat) (acc : List Item), (∀ id ∈ ids, id < two256) → acc.length ≤ count →
      let r := scanUnfiltered avail count (ids.map keyID) acc
      let av := (ids.filter avail).map (fun id => (⟨id, []⟩ : Item))
      r.err = false ∧
      r.items = acc.reverse ++ av.take (count - acc.length) ∧
      (r.cursor = none → av.length ≤ count - acc.length) ∧
      (∀ c, r.cursor = some c → r.items.length = count ∧ ∃ it, r.items.getLast? = some it ∧ c = oidBytes it.id) := by
  intro ids
  induction ids with
  | nil =>
    intro acc _ _
    simp [scanUnfiltered]
  | cons id rest ih =>
    intro acc hid hlen
    have hid0 := hid id List.mem_cons_self
    have hrest : ∀ x ∈ rest, x < two256 := fun x hx => hid x (List.mem_cons_of_mem _ hx)
    obtain ⟨hkl, hkid⟩ := keyID_split id hid0
    simp only [List.map_cons]
    unfold scanUnfiltered
    by_cases hc : acc.length = count
    · rw [if_pos hc]
      refine ⟨rfl, by simp [hc], ?_, ?_⟩
      · intro hnone
        cases acc with
        | nil => simp at hc; omega
        | cons a t => simp at hnone
      · intro c hcur
        cases acc with
        | nil => simp at hcur
        | cons a t =>
          simp only [List.head?_cons, Option.map_some, Option.some.injEq] at hcur
          refine ⟨by simpa using hc, a, ?_, hcur.symm⟩
          simp
    · simp only [hc, if_false, hkl, ne_eq, not_true_eq_false, hkid]
      have hlt : acc.length < count := Nat.lt_of_le_of_ne hlen hc
      by_cases ha : avail id = true
      · simp only [ha, Bool.not_true, Bool.false_eq_true, if_false, List.filter_cons, if_true, List.map_cons]
        have := ih (⟨id, []⟩ :: acc) hrest (by simp only [List.length_cons]; omega)
        simp only [List.length_cons, List.reverse_cons, List.append_assoc, List.singleton_append] at this
        obtain ⟨h1, h2, h3, h4⟩ := this
        have hroom : count - acc.length = (count - (acc.length + 1)) + 1 := by omega
        refine ⟨h1, ?_, ?_, h4⟩
        · rw [h2, hroom, List.take_succ_cons]
        · intro hn; have := h3 hn; simp only [List.length_cons]; omega
      · have ha' : avail id = false := by simpa using ha
        simp only [ha', Bool.not_false, if_true, List.filter_cons, Bool.false_eq_true, if_false]
        exact ih acc hrest hlen

end NeoFS.Search
