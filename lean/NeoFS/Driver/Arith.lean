import NeoFS.Base.Parse
import NeoFS.Model.Precision
namespace NeoFS.Driver
open NeoFS.Precision

def arithStep (o : OpLine) : String :=
  match o.name with
  | "precision" =>
    match o.nat? "p", o.int? "n", o.get? "dir" with
    | some p, some n, some "toBalance" => s!"=> ok v={toBalance p n}"
    | some p, some n, some "toFixed8" => s!"=> ok v={toFixed8 p n}"
    | _, _, _ => "=> bad-op"
  | _ => "=> bad-op"

end NeoFS.Driver
