import NeoFS.Base.Parse
import NeoFS.Model.Precision
namespace NeoFS.Driver
open NeoFS.Precision

/-- `-` is the empty list, otherwise comma separated (signed) integers. -/
def arithParseInts (s : String) : Option (List Int) :=
  if s == "-" || s == "" then some []
  else (s.splitOn ",").mapM String.toInt?

/-- an int64 as the API takes it: anything else is not an amount -/
def arithInt64? (n : Int) : Option Int :=
  if -9223372036854775808 ≤ n ∧ n < 9223372036854775808 then some n else none

def arithStep (o : OpLine) : String :=
  match o.name with
  | "precision" =>
    match o.nat? "p", (o.int? "n").bind arithInt64?, o.get? "dir" with
    | some p, some n, some "toBalance" => s!"=> ok v={toBalance p n}"
    | some p, some n, some "toFixed8" => s!"=> ok v={toFixed8 p n}"
    | _, _, _ => "=> bad-op"
  | "cconv" =>
    -- g goroutines × r rounds through copies of one converter: every interleaving gives what the sequential
    -- run gives (`Props/C39.lean`, `concurrent_eq_sequential`), so no conversion deviates
    match o.nat? "p", o.nat? "g", o.nat? "r", (o.get? "ns").bind arithParseInts with
    | some p, some g, some r, some ns =>
      if g < 1 || g > 64 || r < 1 || ns.isEmpty || ns.any (fun n => (arithInt64? n).isNone) then "=> bad-op"
      else
        let b := runSeq p (ns.map fun n => { toBal := true, n := n })
        let f := runSeq p (ns.map fun n => { toBal := false, n := n })
        s!"=> ok b={showInts b} f={showInts f} bad=0"
    | _, _, _, _ => "=> bad-op"
  | _ => "=> bad-op"

end NeoFS.Driver
