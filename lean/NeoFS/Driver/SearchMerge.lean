import NeoFS.Base.Parse
import NeoFS.Model.SearchMerge
namespace NeoFS.Driver
open NeoFS.Int256 NeoFS.SearchMerge

/-- one stored object of the `smerge` worlds: the values of the plain index and of the integer index by attribute -/
structure SMObj where
  id : Nat
  plain : List (String × List Nat)
  ints : List (String × I256)

structure SMergeState where
  shards : List (List SMObj) := []

def smBytesOfHex (s : String) : Option (List Nat) := if s == "" then some [] else hexToBytes s

def smStr (s : String) : Option Str := (smBytesOfHex s).map bytesStr

def smShowStr (s : Str) : String := bytesToHex (strBytes s)

/-- `id:attrhex`, `id:~` for an item without attributes -/
def smParseItem (t : String) : Option Item :=
  match t.splitOn ":" with
  | [a, b] =>
    match a.toNat? with
    | some id => if b == "~" then some ⟨id, none⟩ else (smStr b).map fun s => ⟨id, some s⟩
    | none => none
  | _ => none

def smParseSet (t : String) : Option (List Item) :=
  if t == "-" then some [] else (t.splitOn ",").mapM smParseItem

def smParseSets (t : String) : Option (List (List Item)) :=
  if t == "-" then some [] else (t.splitOn "/").mapM smParseSet

def smParseMores (t : String) : Option (List Bool) :=
  if t == "-" then some [] else t.toList.mapM fun c => if c == '1' then some true else if c == '0' then some false else none

def smShowItem (it : Item) : String :=
  toString it.id ++ ":" ++ (match it.attr with | some a => smShowStr a | none => "~")

def smShowItems (l : List Item) : String :=
  if l.isEmpty then "-" else String.intercalate "," (l.map smShowItem)

def smShowMergeErr : MergeErr → String
  | .nonInt => "nonint" | .badAttr => "badattr" | .noAttr => "noattr"

def smParseFOp (attr : String) (op : String) : Option (Option (String × FOp)) :=
  match op with
  | "nil" => some none
  | "np" => some (some (attr, .notPresent))
  | "int" => some (some (attr, .int))
  | "str" => some (some (attr, .other))
  | _ => none

def smShowSeekErr : SeekErr → String
  | .oidLen => "oidlen" | .tooLong => "toolong" | .intLen => "intlen" | .short => "short" | .wrongAttr => "wrongattr"
  | .keyValDelim => "kvdelim" | .sign => "sign" | .valOidDelim => "valoiddelim"

def smAttrString (hex : String) : Option String := (smBytesOfHex hex).map fun b => String.ofList (bytesStr b)

/-- attribute and index kind of a walk -/
def smWalkAttr : String → Option (Option String × Bool)
  | "id" => some (none, false)
  | "own" => some (some aOwner, false)
  | "ck" => some (some aChecksum, false)
  | "split" => some (some aSplitID, false)
  | "par" => some (some aParent, false)
  | "first" => some (some aFirst, false)
  | "assoc" => some (some aAssociate, false)
  | "num" => some (some "N", true)
  | "nstr" => some (some "N", false)
  | "str" => some (some "S", false)
  | "typ" => some (some "$Object:objectType", false)
  | "ver" => some (some "$Object:version", false)
  | _ => none

inductive SMFlt
  | all
  | eq (raw : List Nat)
  | icmp (op : String) (z : I256)

def smParseFlt (t : String) : Option SMFlt :=
  if t == "all" then some .all
  else match t.splitOn ":" with
    | ["eq", h] => (smBytesOfHex h).map .eq
    | [op, d] =>
      if op == "ge" || op == "gt" || op == "le" || op == "lt" then (parseDecimal d.toList).map (.icmp op)
      else none
    | _ => none

def smIntMatch (op : String) (v z : I256) : Bool :=
  match op, cmp v z with
  | "ge", c => c != .lt
  | "gt", c => c == .gt
  | "le", c => c != .gt
  | "lt", c => c == .lt
  | _, _ => false

/-- the matching index entries of one shard -/
def smEnts (q : Query) (f : SMFlt) (objs : List SMObj) : List Ent :=
  match q.attr with
  | none => objs.map fun o => ⟨o.id, []⟩
  | some a =>
    if q.isInt then
      objs.filterMap fun o =>
        match o.ints.find? (·.1 == a) with
        | some (_, v) =>
          (match f with
            | .icmp op z => if smIntMatch op v z then some ⟨o.id, encode v⟩ else none
            | _ => some ⟨o.id, encode v⟩)
        | none => none
    else
      objs.filterMap fun o =>
        match o.plain.find? (·.1 == a) with
        | some (_, raw) =>
          (match f with
            | .eq r => if raw == r then some ⟨o.id, raw⟩ else none
            | _ => some ⟨o.id, raw⟩)
        | none => none

/-- where the first page starts (`PreprocessSearchQuery` with an empty cursor, for the filters the walks use) -/
def smInitialSeek (q : Query) (f : SMFlt) : Seek :=
  match q.attr with
  | none => ⟨[0], [0]⟩
  | some a =>
    let ab := strBytes a.toList
    if q.isInt then
      match f with
      | .icmp op z => if op == "ge" || op == "gt" then ⟨1 :: ab ++ 0 :: encode z, 1 :: ab ++ [0]⟩ else ⟨1 :: ab ++ [0], 1 :: ab ++ [0]⟩
      | _ => ⟨1 :: ab ++ [0], 1 :: ab ++ [0]⟩
    else
      match f with
      | .eq r => ⟨2 :: ab ++ 0 :: r, 2 :: ab ++ [0]⟩
      | _ => ⟨2 :: ab ++ [0], 2 :: ab ++ [0]⟩

def smShowPage (p : Page) (cur : String) : String := smShowItems p.items ++ "@" ++ cur

/-- the page chain of `search` from the first page, feeding every cursor back through `decodeCursor` -/
def smWalk (q : Query) (search : Seek → Except EngErr Page) : Nat → Seek → List String → List String
  | 0, _, acc => (("GUARD") :: acc).reverse
  | fuel + 1, sk, acc =>
    match search sk with
    | .error (.merge _) => ("ERR:merge" :: acc).reverse
    | .error (.cursor _) => ("ERR:cursor" :: acc).reverse
    | .ok p =>
      match p.cursor with
      | none => (smShowPage p "-" :: acc).reverse
      | some c =>
        match decodeCursor q.attr q.isInt c with
        | .error _ => (smShowPage p (bytesToHex c ++ "!REJ") :: acc).reverse
        | .ok sk' => smWalk q search fuel sk' (smShowPage p (bytesToHex c) :: acc)

def smParseObj (o : OpLine) : Option SMObj := do
  let id ← o.nat? "o"
  let own ← (o.get? "own").bind smBytesOfHex
  let ck ← (o.get? "ck").bind smBytesOfHex
  let typ ← (o.get? "typ").bind smBytesOfHex
  let ver ← (o.get? "ver").bind smBytesOfHex
  let opt (k : String) (a : String) : Option (List (String × List Nat)) :=
    match o.get? k with
    | none => none
    | some "-" => some []
    | some h => (smBytesOfHex h).map fun b => [(a, b)]
  let split ← opt "split" aSplitID
  let par ← opt "par" aParent
  let first ← opt "first" aFirst
  let assoc ← opt "assoc" aAssociate
  let num ← opt "num" "N"
  let str ← opt "str" "S"
  let ints := num.filterMap fun p => (parseDecimal (bytesStr p.2)).map fun z => (p.1, z)
  pure { id := id
         plain := [(aOwner, own), (aChecksum, ck), ("$Object:objectType", typ), ("$Object:version", ver)] ++ split ++ par ++ first ++ assoc ++ num ++ str
         ints := ints }

def smergeStep (s : SMergeState) (o : OpLine) : SMergeState × String :=
  match o.name with
  | "merge" =>
    match o.nat? "lim", (o.get? "attr").bind smAttrString, o.nat? "int", (o.get? "sets").bind smParseSets,
        (o.get? "mores").bind smParseMores with
    | some lim, some attr, some ci, some sets, some mores =>
      match mergeResults lim attr (ci == 1) sets mores with
      | .ok (r, more) => (s, s!"=> ok res={smShowItems r} more={if more then 1 else 0}")
      | .error e => (s, "=> err " ++ smShowMergeErr e)
    | _, _, _, _, _ => (s, "=> bad-op")
  | "calcmax" =>
    match o.nat? "lim", (o.get? "sets").bind smParseSets with
    | some lim, some sets => if sets.isEmpty then (s, "=> bad-op") else (s, s!"=> ok n={calcMax lim sets}")
    | _, _ => (s, "=> bad-op")
  | "cursor" =>
    match (o.get? "attr").bind smAttrString, (o.get? "item").bind smParseItem with
    | some attr, some it =>
      match smParseFOp attr ((o.get? "op").getD "") with
      | some filt =>
        match calcCursor filt it with
        | .ok c => (s, "=> ok c=" ++ bytesToHex c)
        | .error _ => (s, "=> err")
      | none => (s, "=> bad-op")
    | _, _ => (s, "=> bad-op")
  | "accept" =>
    match (o.get? "attr").bind smAttrString, o.nat? "int", (o.get? "cur").bind smBytesOfHex with
    | some attr, some ci, some cur =>
      if cur.isEmpty then (s, "=> bad-op") else
      match decodeCursor (if attr == "" then none else some attr) (ci == 1) cur with
      | .ok sk => (s, s!"=> ok seek={bytesToHex sk.key} pfx={bytesToHex sk.pfx}")
      | .error e => (s, "=> err " ++ smShowSeekErr e)
    | _, _, _ => (s, "=> bad-op")
  | "init" =>
    match o.nat? "n" with
    | some n => if 1 ≤ n ∧ n ≤ 4 then ({ shards := List.replicate n [] }, "=> ok") else (s, "=> bad-op")
    | none => (s, "=> bad-op")
  | "put" =>
    match o.nats? "sh", smParseObj o with
    | some shs, some obj =>
      if s.shards.isEmpty || shs.isEmpty || shs.any (fun k => s.shards.length ≤ k) then (s, "=> bad-op")
      else
        let shards := s.shards.zipIdx.map fun p =>
          if shs.contains p.2 then (p.1.filter (·.id != obj.id)) ++ [obj] else p.1
        ({ shards := shards }, "=> ok")
    | _, _ => (s, "=> bad-op")
  | "walk" =>
    match (o.get? "a").bind smWalkAttr, (o.get? "f").bind smParseFlt, o.nat? "count" with
    | some (attr, isInt), some f, some count =>
      if s.shards.isEmpty || count == 0 then (s, "=> bad-op") else
      let fOk := match f, attr, isInt with
        | .all, _, _ => true
        | .eq _, some _, false => true
        | .icmp _ _, some _, true => true
        | _, _, _ => false
      if !fOk then (s, "=> bad-op") else
      let q : Query := ⟨attr, isInt⟩
      let shardEnts := s.shards.map (smEnts q f)
      let pages := smWalk q (fun sk => engineSearch q shardEnts sk count) 64 (smInitialSeek q f) []
      (s, "=> " ++ String.intercalate ";" pages)
    | _, _, _ => (s, "=> bad-op")
  | _ => (s, "=> bad-op")

end NeoFS.Driver
