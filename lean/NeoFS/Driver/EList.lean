import NeoFS.Driver.Meta
import NeoFS.Model.ListMerge
namespace NeoFS.Driver
open NeoFS.Meta NeoFS.EngList

/-- the shards of the listing engine: one metabase model per shard -/
structure EListState where
  shards : List MetaState := []

def parseCursor (s : Option String) : Option (Option (Nat × Nat)) :=
  match s with
  | none | some "-" => some none
  | some t =>
    match t.splitOn "/" with
    | [a, b] => match a.toNat?, b.toNat? with
      | some x, some y => some (some (x, y))
      | _, _ => none
    | _ => none

def showAddr (a : Nat × Nat) : String := s!"{a.1}/{a.2}"

def showCursor : Option (Nat × Nat) → String
  | none => "end"
  | some a => showAddr a

def elistSortNats (l : List Nat) : List Nat := l.mergeSort (· ≤ ·)

def elistStep (s : EListState) (o : OpLine) : EListState × String :=
  match o.name with
  | "init" =>
    match o.nat? "n" with
    | some n => ({ shards := List.replicate n {} }, "=> ok")
    | none => (s, "=> bad-op")
  | "slist" =>   -- Shard.ListWithCursor on one shard
    match o.nat? "sh", o.nat? "count", parseCursor (o.get? "cur") with
    | some k, some count, some cur =>
      match s.shards[k]? with
      | some m =>
        let (pg, next) := dbList m.db count cur
        let j := if pg.isEmpty then "-" else String.intercalate "," (pg.map showAddr)
        (s, s!"=> page={j} next={showCursor next}")
      | none => (s, "=> bad-op")
    | _, _, _ => (s, "=> bad-op")
  | "list" =>    -- StorageEngine.ListWithCursor over all shards
    match o.nat? "count", parseCursor (o.get? "cur") with
    | some count, some cur =>
      let shards := (s.shards.zipIdx).map fun p => (p.2, p.1.db)
      let (items, next) := engList shards count cur
      let j := if items.isEmpty then "-" else String.intercalate ","
        (items.map fun it => showAddr it.addr ++ "@" ++ String.intercalate "+" ((elistSortNats it.holders).map toString))
      (s, s!"=> page={j} next={showCursor next}")
    | _, _ => (s, "=> bad-op")
  | _ =>
    -- a metabase operation on one shard
    match (if o.name == "put" || o.name == "mark" || o.name == "inhumecnr" then o.nat? "sh" else none) with
    | some k =>
      match s.shards[k]? with
      | some m =>
        let (m', res) := metaApply m o
        if res == "=> bad-op" then (s, res) else ({ shards := s.shards.set k m' }, res)
      | none => (s, "=> bad-op")
    | none => (s, "=> bad-op")

end NeoFS.Driver
