import NeoFS.Base.Parse
import NeoFS.Model.IRIndexer
/-!
Driver of the caching-indexer stream of engine `ir` (C35): ops `ix*`.  The node's key is `0`.
-/
namespace NeoFS.Driver.IRIdx
open NeoFS NeoFS.IRAuth NeoFS.IRIndexer

def showRpc (r : Res) : String := s!"rpc={r.rpcIR},{r.rpcComm}"

/-- key ids of the harness: 0..9 -/
def keysOk (l : List Nat) : Bool := l.all (· < 10) && l.length ≤ 8

def step (s : St) (o : OpLine) : St × String :=
  match o.name with
  | "ixstart" =>
    match o.nat? "to" with
    | some t => if t > 100 then (s, "=> bad-op") else (IRIndexer.step 0 s (.start t), "=> ok")
    | none => (s, "=> bad-op")
  | "ixchain" =>
    match o.nats? "ir", o.nats? "comm" with
    | some i, some c => if keysOk i && keysOk c then (IRIndexer.step 0 s (.chain i c), "=> ok") else (s, "=> bad-op")
    | _, _ => (s, "=> bad-op")
  | "ixfail" =>
    match o.nat? "ir", o.nat? "comm" with
    | some a, some b => if a > 100 || b > 100 then (s, "=> bad-op") else (IRIndexer.step 0 s (.fail a b), "=> ok")
    | _, _ => (s, "=> bad-op")
  | "ixwait" =>
    match o.nat? "d" with
    | some d => if d > 1000 then (s, "=> bad-op") else (IRIndexer.step 0 s (.wait d), "=> ok")
    | none => (s, "=> bad-op")
  | "ixreset" => (IRIndexer.step 0 s .reset, "=> ok")
  | "ixget" =>
    let (s', r) := update 0 s
    match o.get? "g" with
    | some "alpha" => (s', s!"=> ok v={isAlphabet (alphabetIndexOf r)} {showRpc r}")
    | some "aidx" => (s', s!"=> ok v={alphabetIndexOf r} {showRpc r}")
    | some "active" => (s', s!"=> ok v={isAlphabet (innerRingIndexOf r)} {showRpc r}")
    | some "iridx" => (s', s!"=> ok v={innerRingIndexOf r} {showRpc r}")
    | some "size" => (s', s!"=> ok v={innerRingSizeOf r} {showRpc r}")
    | _ => (s, "=> bad-op")
  | "ixvote" =>
    match o.nat? "n", o.nat? "nval" with
    | some n, some nval =>
      if n > 8 || nval > 8 then (s, "=> bad-op") else
      let (s', r) := update 0 s
      (s', s!"=> ok invokes={voteInvokes (alphabetIndexOf r) n nval false} {showRpc r}")
    | _, _ => (s, "=> bad-op")
  | "ixemit" =>
    match o.nat? "n", o.nat? "nodes", o.nat? "emission" with
    | some n, some nodes, some em =>
      if n > 8 || nodes > 8 then (s, "=> bad-op") else
      let (s', r) := update 0 s
      (s', s!"=> ok effects={emitEffects (alphabetIndexOf r) n nodes em} {showRpc r}")
    | _, _, _ => (s, "=> bad-op")
  | "ixtick" =>
    let (s', r) := update 0 s
    (s', s!"=> ok effects={tickEffects (isAlphabet (alphabetIndexOf r))} {showRpc r}")
  | _ => (s, "=> bad-op")

end NeoFS.Driver.IRIdx
