import NeoFS.Base.Parse
import NeoFS.Model.WCSched
/-! Driver of `Model/WCSched.lean` for the engine `wcsched` (one op = one fresh cache, one scheduler pass, optional retry). -/
namespace NeoFS.Driver
open NeoFS.WCSched

def insertNat (x : Nat) : List Nat → List Nat
  | [] => [x]
  | y :: ys => if x ≤ y then x :: y :: ys else y :: insertNat x ys

def wcschedSortNats (l : List Nat) : List Nat := l.foldr insertNat []

def wcsState (s : Sys) : String :=
  "files=" ++ showNats (wcschedSortNats (s.cache.map (·.1))) ++ " infl=" ++ showNats (wcschedSortNats s.inflight)

def wcschedPass (o : OpLine) : String :=
  match o.name, o.nats? "lens", o.nat? "thr", o.nat? "count", o.nat? "size", o.nat? "fail" with
  | "pass", some lens, some thr, some count, some size, some fail =>
    let cfg : Cfg := { thr := thr, maxCount := count, maxSize := size }
    let objs := (List.range lens.length).zip lens |>.map fun p => (p.1 + 1, p.2)
    let s0 : Sys := { cache := objs }
    -- one worker: the fail-th main-storage call fails while the scheduler waits at its next hand-over
    let oracle := if fail == 0 then [] else List.replicate fail true ++ [false]
    let r := pass cfg true (candidates s0) oracle
    let s1 := stepSys cfg true s0 (.pass oracle)
    let s2 := (List.range s1.jobs.length).foldl (fun s i => stepSys cfg true s (.finish 0 (i + 1 != fail))) s1
    let calls := if r.sent.isEmpty then "-" else String.join (r.sent.map fun b => "[" ++ showNats (wcschedSortNats b) ++ "]")
    let first := "=> ok calls=" ++ calls ++ " " ++ wcsState s2
    if o.get? "wait" == some "1" then
      let s3 := stepSys cfg true s2 (.pass [])
      let s4 := runSys cfg true s3 (List.replicate s3.jobs.length (.finish 0 true))
      first ++ " later " ++ wcsState s4
    else first
  | _, _, _, _, _, _ => "=> bad-op"

/-! `span`: rounds of puts, each followed by one scheduler pass, while chosen main-storage calls (the first call that
carries a victim id) are held open; the held calls are then ended one by one (ok / failure); optional retry after the
back-off. One free worker always exists, so every hand-over is taken. Runs on `BSys` (arrays behind the batches). -/

def wcschedBState (s : BSys) : String :=
  "files=" ++ showNats (wcschedSortNats (s.cache.map (·.1))) ++ " infl=" ++ showNats (wcschedSortNats s.inflight)

def wcschedInsertCall (x : List Nat) : List (List Nat) → List (List Nat)
  | [] => [x]
  | y :: ys => if x.headD 0 ≤ y.headD 0 then x :: y :: ys else y :: wcschedInsertCall x ys

def wcschedShowCalls (bs : List (List Nat)) : String :=
  if bs.isEmpty then "-"
  else String.join (((bs.map wcschedSortNats).foldr wcschedInsertCall []).map fun b => "[" ++ showNats b ++ "]")

/-- end (storage accepting) every running job that holds none of the `held` ids -/
def wcschedFinishFree (cfg : Cfg) (held : List Nat) : Nat → BSys → BSys
  | 0, s => s
  | fuel + 1, s =>
    match s.jobs.findIdx? (fun j => !(j.given.any fun a => held.contains a)) with
    | some i => wcschedFinishFree cfg held fuel (stepB cfg false s (.finish i true))
    | none => s

def wcschedTakeRounds : List Nat → List (Nat × Nat) → Option (List (List (Nat × Nat)))
  | [], [] => some []
  | [], _ :: _ => none
  | n :: ns, objs =>
    if n = 0 ∨ objs.length < n then none
    else (wcschedTakeRounds ns (objs.drop n)).map fun r => objs.take n :: r

def wcschedSpan (o : OpLine) : String :=
  match o.nats? "lens", o.nats? "rounds", o.nat? "thr", o.nat? "count", o.nat? "size", o.nats? "stall", o.nats? "end" with
  | some lens, some rounds, some thr, some count, some size, some stall, some ends =>
    let cfg : Cfg := { thr := thr, maxCount := count, maxSize := size }
    let objs := (List.range lens.length).zip lens |>.map fun p => (p.1 + 1, p.2)
    match wcschedTakeRounds rounds objs with
    | none => "=> bad-op"
    | some rs =>
      if stall.length ≠ ends.length ∨ ends.any (fun e => e > 1) ∨ stall.any (fun v => v = 0 ∨ v > lens.length) then "=> bad-op"
      else
        -- the rounds
        let (s, out) := rs.foldl (fun (acc : BSys × String) r =>
          let s0 := r.foldl (fun s p => stepB cfg false s (.put p.1 p.2)) acc.1
          let sent := (pass cfg true (candidates (toSys s0)) []).sent
          let s1 := stepB cfg false s0 (.pass [])
          let s2 := wcschedFinishFree cfg stall s1.jobs.length s1
          (s2, acc.2 ++ " | pass calls=" ++ wcschedShowCalls sent ++ " " ++ wcschedBState s2)) (({} : BSys), "")
        -- the held calls end in the order of `stall`
        let (s, out) := (stall.zip ends).foldl (fun (acc : BSys × String) ve =>
          match acc.1.jobs.findIdx? (fun j => j.given.contains ve.1) with
          | some i =>
            let s' := stepB cfg false acc.1 (.finish i (ve.2 == 1))
            (s', acc.2 ++ " | end " ++ wcschedBState s')
          | none => (acc.1, acc.2 ++ " | end -")) (s, out)
        let out :=
          if o.get? "wait" == some "1" then
            let s3 := stepB cfg false s (.pass [])
            let s4 := wcschedFinishFree cfg [] s3.jobs.length s3
            out ++ " | later " ++ wcschedBState s4
          else out
        "=> ok" ++ out
  | _, _, _, _, _, _, _ => "=> bad-op"

def wcschedStep (o : OpLine) : String :=
  if o.name == "span" then wcschedSpan o else wcschedPass o

end NeoFS.Driver
