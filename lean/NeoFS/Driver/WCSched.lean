import NeoFS.Base.Parse
import NeoFS.Model.WCSched
/-! Driver of `Model/WCSched.lean` for the engine `wcsched` (one op = one fresh cache, one scheduler pass, optional retry). -/
namespace NeoFS.Driver
open NeoFS.WCSched

def insertNat (x : Nat) : List Nat → List Nat
  | [] => [x]
  | y :: ys => if x ≤ y then x :: y :: ys else y :: insertNat x ys

def wcschedSortNats (l : List Nat) : List Nat := l.foldr insertNat []

def wcsState (s : Sys) : String :=
  "files=" ++ showNats (wcschedSortNats (s.cache.map (·.1))) ++ " infl=" ++ showNats (wcschedSortNats s.inflight)

def wcschedStep (o : OpLine) : String :=
  match o.name, o.nats? "lens", o.nat? "thr", o.nat? "count", o.nat? "size", o.nat? "fail" with
  | "pass", some lens, some thr, some count, some size, some fail =>
    let cfg : Cfg := { thr := thr, maxCount := count, maxSize := size }
    let objs := (List.range lens.length).zip lens |>.map fun p => (p.1 + 1, p.2)
    let s0 : Sys := { cache := objs }
    -- one worker: the fail-th main-storage call fails while the scheduler waits at its next hand-over
    let oracle := if fail == 0 then [] else List.replicate fail true ++ [false]
    let r := pass cfg true (candidates s0) oracle
    let s1 := stepSys cfg true s0 (.pass oracle)
    let s2 := (List.range s1.jobs.length).foldl (fun s i => stepSys cfg true s (.finish 0 (i + 1 != fail))) s1
    let calls := if r.sent.isEmpty then "-" else String.join (r.sent.map fun b => "[" ++ showNats (wcschedSortNats b) ++ "]")
    let first := "=> ok calls=" ++ calls ++ " " ++ wcsState s2
    if o.get? "wait" == some "1" then
      let s3 := stepSys cfg true s2 (.pass [])
      let s4 := runSys cfg true s3 (List.replicate s3.jobs.length (.finish 0 true))
      first ++ " later " ++ wcsState s4
    else first
  | _, _, _, _, _, _ => "=> bad-op"

end NeoFS.Driver
