import NeoFS.Base.Parse
import NeoFS.Model.WC
namespace NeoFS.Driver
open NeoFS.WC

def showKV (l : List (Nat × Nat)) : String :=
  if l.isEmpty then "-" else "[" ++ String.intercalate " " (l.map fun p => s!"{p.1}:{p.2}") ++ "]"

def wcObs (s : St) : String := s!"size={s.size} n={s.objMap.length} files={showKV s.files} main={showKV s.main}"

def errName : Err → String
  | .ok => "ok" | .noSpace => "noSpace" | .notFound => "notFound" | .storage => "storage"

def wcStep (s : St) (o : OpLine) : St × String :=
  match o.name with
  | "put" =>
    match o.nat? "a", o.nat? "len" with
    | some a, some n => let (s', e) := put s a n; (s', "=> " ++ errName e ++ " " ++ wcObs s')
    | _, _ => (s, "=> bad-op")
  | "del" =>
    match o.nat? "a" with
    | some a => let (s', e) := delete s a; (s', "=> " ++ errName e ++ " " ++ wcObs s')
    | none => (s, "=> bad-op")
  | "flushall" =>
    let (s', e) := flushAll s (o.get? "ok" == some "1")
    (s', "=> " ++ errName e ++ " " ++ wcObs s')
  | "reopen" => let s' := reopen s; (s', "=> ok " ++ wcObs s')
  | _ => (s, "=> bad-op")

end NeoFS.Driver
