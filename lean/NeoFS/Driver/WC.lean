import NeoFS.Base.Parse
import NeoFS.Model.WC
namespace NeoFS.Driver
open NeoFS.WC

def showKV (l : List (Nat × Nat)) : String :=
  if l.isEmpty then "-" else "[" ++ String.intercalate " " (l.map fun p => s!"{p.1}:{p.2}") ++ "]"

def wcObs (s : St) : String := s!"size={s.size} n={s.objMap.length} files={showKV s.files} main={showKV s.main}"

def errName : Err → String
  | .ok => "ok" | .noSpace => "noSpace" | .notFound => "notFound" | .storage => "storage"

def wcStep (s : St) (o : OpLine) : St × String :=
  match o.name with
  -- `cput`: k objects a, a+1, …, each put for the first time by several concurrent writers; every interleaving of
  -- their steps accounts an object once (the file write is idempotent, `counters.Add` replaces), i.e. the op
  -- behaves like k sequential puts (the first refusal is reported)
  | "cput" =>
    match o.nat? "a", o.nats? "lens" with
    | some a, some lens =>
      let r := lens.foldl (fun (acc : St × Err × Nat) n =>
        let (s', e) := put acc.1 acc.2.2 n
        (s', (if acc.2.1 != .ok then acc.2.1 else e), acc.2.2 + 1)) (s, .ok, a)
      (r.1, "=> " ++ errName r.2.1 ++ " " ++ wcObs r.1)
    | _, _ => (s, "=> bad-op")
  | "put" =>
    match o.nat? "a", o.nat? "len" with
    | some a, some n => let (s', e) := put s a n; (s', "=> " ++ errName e ++ " " ++ wcObs s')
    | _, _ => (s, "=> bad-op")
  | "del" =>
    match o.nat? "a" with
    | some a => let (s', e) := delete s a; (s', "=> " ++ errName e ++ " " ++ wcObs s')
    | none => (s, "=> bad-op")
  | "flushall" =>
    let (s', e) := flushAll s (o.get? "ok" == some "1")
    (s', "=> " ++ errName e ++ " " ++ wcObs s')
  | "reopen" => let s' := reopen s; (s', "=> ok " ++ wcObs s')
  | _ => (s, "=> bad-op")

end NeoFS.Driver
