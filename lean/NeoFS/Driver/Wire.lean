import NeoFS.Base.Parse
import NeoFS.Model.Wire
namespace NeoFS.Driver
open NeoFS.Wire

def toBytes (l : List Nat) : Bytes := l.map UInt8.ofNat
def ofBytes (b : Bytes) : List Nat := b.map UInt8.toNat

def showErr : Err → String
  | .empty => "empty" | .tag => "tag" | .unordered => "unordered" | .repeated => "repeated"
  | .wtype => "wtype" | .field => "field" | .unktype => "unktype" | .fuel => "fuel"

def showFB (f : FB) : String := s!"{f.from_}:{f.vfrom}:{f.to_}"

def showBounds : Except Err (FB × FB × FB) → String
  | .ok (a, b, c) => s!"ok:{showFB a}/{showFB b}/{showFB c}"
  | .error e => showErr e

def showNatRes : Except Err Nat → String
  | .ok v => s!"ok:{v}"
  | .error e => showErr e

def showTop (b : Bytes) : String :=
  match refParse b with
  | none => "err"
  | some fs => s!"ok:{fs.length}:" ++
      (if fs.isEmpty then "-" else String.intercalate "," (fs.map fun f => s!"{f.num}.{f.wt}.{f.from_}.{f.vfrom}.{f.to_}"))

def showEHP (b : Bytes) (cbad : List Nat) (sem : Bool) : String :=
  match extractHeaderAndPayload b (fun _ vf _ => !cbad.contains vf) with
  | .error .empty => "empty"
  | .error .wire => "wire"
  | .error (.content k) => s!"content{k}"
  | .error .fuel => "fuel"
  | .ok r =>
    if sem then "sem" else
    let id := match r.id with
      | none => "-"
      | some (vf, vt) =>
        match lastBytes ((b.take vt).drop vf) fObjID with
        | some v => if v.isEmpty then "-" else bytesToHex (ofBytes v)
        | none => "?"
    s!"ok:{r.poff}:{id}"

def objObs (b : Bytes) (cbad : List Nat) (sem : Bool) : String :=
  s!"=> top={showTop b} np={showBounds (getNonPayloadFieldBounds b)} par={showBounds (getParentNonPayloadFieldBounds b)} ehp={showEHP b cbad sem}"

def wireStep (o : OpLine) : String :=
  match o.name with
  | "consts" =>
    s!"=> ok obj={fObjID},{fObjSig},{fObjHdr},{fObjPayload} hdr={fHdrPayloadLength},{fHdrType},{fHdrSplit} " ++
    s!"split={fSplitParent},{fSplitPrevious},{fSplitParentSig},{fSplitParentHdr}"
  | "obj" =>
    match o.bytes? "b", o.nats? "cbad", o.nat? "sem" with
    | some b, some cbad, some sem => objObs (toBytes b) cbad (sem != 0)
    | _, _, _ => "=> bad-op"
  | "trunc" =>
    match o.bytes? "b", o.nat? "at", o.nats? "cbad", o.nat? "sem" with
    | some b, some at_, some cbad, some sem => objObs ((toBytes b).take at_) cbad (sem != 0)
    | _, _, _, _ => "=> bad-op"
  | "hdr" =>
    match o.bytes? "b" with
    | some b =>
      let b := toBytes b
      s!"=> top={showTop b} plen={showNatRes (getPayloadLengthHeader b)} typ={showNatRes (getTypeHeader b)} " ++
      s!"parh={showBounds (getParentNonPayloadFieldBoundsHeader b)}"
    | none => "=> bad-op"
  | "varint" =>
    match o.bytes? "b" with
    | some b =>
      match consumeVarint (toBytes b) with
      | .ok (v, n) => s!"=> ok v={v} n={n}"
      | .error .trunc => "=> trunc"
      | .error .overflow => "=> overflow"
    | none => "=> bad-op"
  | "uv" =>
    match o.nat? "v" with
    | some v => if v < 2 ^ 64 then "=> ok b=" ++ bytesToHex (ofBytes (encodeVarint v)) else "=> bad-op"
    | none => "=> bad-op"
  | _ => "=> bad-op"

end NeoFS.Driver
