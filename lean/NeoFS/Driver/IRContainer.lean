import NeoFS.Base.Parse
import NeoFS.Model.IRContainer
namespace NeoFS.Driver
open NeoFS.IRContainer

namespace IRC

def flag? (o : OpLine) (k : String) : Option Bool :=
  match o.get? k with
  | some "1" => some true
  | some "0" => some false
  | _ => none

def dashStr (o : OpLine) (k : String) : Option String :=
  (o.get? k).map fun s => if s == "-" then "" else s

def tailStr (s : String) : String := String.ofList (s.toList.drop 1)

def bit? (s : String) : Option Bool :=
  if s == "1" then some true else if s == "0" then some false else none

def parseSig (s : String) : Option DSig :=
  match s.splitOn ":" with
  | [k, g, n] => do
    let k ← k.toNat?
    let g ← bit? g
    let n ← bit? n
    some ⟨k, g, n⟩
  | _ => none

def parseVS (s : String) : Option VScript :=
  match s.toList with
  | 'k' :: r => (String.ofList r).toNat?.map .key
  | 'o' :: r => (String.ofList r).toNat?.map .other
  | _ => none

def parseTSig (s : String) : Option (TSig DSig) :=
  match s.toList with
  | ['-'] => some .none
  | ['u'] => some .unsupported
  | 'e' :: r =>
    match (String.ofList r).splitOn "." with
    | [cl, signer, good] => do
      let signer ← signer.toNat?
      let good ← bit? good
      if cl == "x" then some (.ecdsa none ⟨signer, good, false⟩)
      else do
        let c ← cl.toNat?
        some (.ecdsa (some c) ⟨signer, good, false⟩)
    | _ => none
  | 'n' :: r =>
    match (String.ofList r).splitOn "." with
    | [vs, ok] => do
      let vs ← vs.toNat?
      let ok ← bit? ok
      some (.n3 (.other (vs + 1)) ⟨0, false, ok⟩)
    | _ => none
  | _ => none

def parseSep (sep : String) (s : String) : Option (List Nat) :=
  if s == "-" || s == "" then some [] else (s.splitOn sep).mapM String.toNat?

def parseCtx (s : String) : Option Ctx :=
  match s.splitOn "." with
  | [c, vs] => do
    let c ← c.toNat?
    let vs ← parseSep "+" vs
    some ⟨c, vs⟩
  | _ => none

def parseV2Tok (s : String) : Option (TokV2 DSig) :=
  match s.splitOn "/" with
  | [ver, iss, subj, ctxs, life, fin, sig] => do
    let ver ← ver.toNat?
    let iss ← iss.toNat?
    let subj ← parseNats subj
    let ctxs ← if ctxs == "-" then some [] else (ctxs.splitOn "|").mapM parseCtx
    let life ← if life == "-" then some none else
      match life.splitOn "." with
      | [a, b, c] => do
        let a ← a.toNat?
        let b ← b.toNat?
        let c ← c.toNat?
        some (some (a, b, c))
      | _ => none
    let fin ← bit? fin
    let sig ← parseTSig sig
    some { version := ver, issuer := iss, subjects := subj, ctxs := ctxs, life := life, final := fin, sig := sig }
  | _ => none

def parseTok (s : String) : Option (Tok DSig) :=
  if s == "-" then some .none
  else if s == "g" then some .garbage
  else match s.toList with
    | '1' :: ':' :: r =>
      match (String.ofList r).splitOn ":" with
      | [iss, sig, verb, cnr, iat, nbf, exp, ak] => do
        let iss ← iss.toNat?
        let sig ← parseTSig sig
        let verb ← verb.toNat?
        let cnr ← cnr.toNat?
        let iat ← iat.toNat?
        let nbf ← nbf.toNat?
        let exp ← exp.toNat?
        let ak ← if ak == "x" then some none else ak.toNat?.map some
        some (.v1 { issuer := iss, sig := sig, verb := verb, cnr := cnr, iat := iat, nbf := nbf, exp := exp, authKey := ak })
      | _ => none
    | '2' :: ':' :: r => ((String.ofList r).splitOn ";").mapM parseV2Tok |>.map .v2
    | _ => none

def parseAuth (o : OpLine) (pfx : String) (kind : Kind) (idSet : Bool) : Option (Auth DSig) := do
  let own ← o.nat? (pfx ++ "own")
  let tgt ← o.nat? (pfx ++ "tgt")
  let vs ← (o.get? (pfx ++ "vs")).bind parseVS
  let sig ← (o.get? (pfx ++ "sig")).bind parseSig
  let tok ← (o.get? (pfx ++ "tok")).bind parseTok
  some { owner := own, kind := kind, idSet := idSet, target := tgt, tok := tok, vs := vs, sig := sig }

def parseFilter (s : String) : Option EFilter :=
  match s.splitOn "." with
  | [m, v] => do
    let m ← m.toNat?
    let v ← if v == "e" then some ValClass.empty else if v == "d" then some ValClass.decimal
      else if v == "o" then some ValClass.other else none
    some ⟨m, v⟩
  | _ => none

def parseRecord (s : String) : Option ERecord :=
  match s.splitOn "/" with
  | [c, roles, fs] => do
    let c ← c.toNat?
    let roles ← parseNats roles
    let fs ← if fs == "-" then some [] else (fs.splitOn "+").mapM parseFilter
    some ⟨c, roles, fs⟩
  | _ => none

def parseRecords (s : String) : Option (List ERecord) :=
  if s == "-" || s == "" then some [] else (s.splitOn ";").mapM parseRecord

def parseReq (o : OpLine) : Option (Req DSig) :=
  match o.name with
  | "put" | "create" => do
    let a ← parseAuth o "" .put false
    let dec ← flag? o "dec"
    let attrs ← (o.get? "attrs").map fun s => if s == "-" then [] else s.splitOn ","
    let ecr ← o.nat? "ecr"
    let reps ← o.nat? "reps"
    let ini ← flag? o "init"
    let pol ← flag? o "pol"
    let rn ← dashStr o "rn"
    let rz ← dashStr o "rz"
    let cn ← dashStr o "cn"
    let cz ← dashStr o "cz"
    let nid ← o.nat? "nid"
    let body : PutBody := { attrs := attrs, ecRules := ecr, reps := reps, hasInitial := ini, policyOk := pol,
                            reqName := rn, reqZone := rz, cnrName := cn, cnrZone := cz }
    let hasE ← flag? o "eacl"
    if hasE then
      if o.name == "put" then none else do
      let ea ← parseAuth o "e_" .setEACL true
      let tabok ← flag? o "e_tabok"
      let tcid ← o.nat? "e_tcid"
      let recs ← (o.get? "e_recs").bind parseRecords
      let ext ← flag? o "e_ext"
      -- the processor checks the table's witness against the NEW container: its id and owner
      let ea := { ea with owner := a.owner, target := nid }
      some (.put dec body { a with target := 0 } nid (some (⟨tabok, tcid, recs, ext⟩, ea)))
    else some (.put dec body { a with target := 0 } nid none)
  | "delete" => do
    let a ← parseAuth o "" .delete true
    let idOk ← flag? o "idok"
    let found ← flag? o "found"
    some (.delete idOk found a)
  | "eacl" => do
    let a ← parseAuth o "" .setEACL true
    let found ← flag? o "found"
    let tabok ← flag? o "tabok"
    let tcid ← o.nat? "tcid"
    let recs ← (o.get? "recs").bind parseRecords
    let ext ← flag? o "ext"
    some (.eacl found ⟨tabok, tcid, recs, ext⟩ a)
  | "setattr" | "rmattr" => do
    let a ← parseAuth o "" (if o.name == "setattr" then .setAttr else .rmAttr) true
    let idOk ← flag? o "idok"
    let nz ← flag? o "nz"
    let ne ← flag? o "ne"
    let found ← flag? o "found"
    some (.attr idOk nz ne found a)
  | _ => none

end IRC

def ircStep (o : OpLine) : String :=
  match IRC.parseReq o, IRC.flag? o "alpha", IRC.flag? o "me", IRC.flag? o "ec", o.nat? "epoch", o.nat? "now" with
  | some r, some al, some me, some ec, some epoch, some now =>
    if approve driverCrypto ⟨me, ec⟩ ⟨epoch, now⟩ al r then "=> approve" else "=> reject"
  | _, _, _, _, _, _ => "=> bad-op"

end NeoFS.Driver
