import NeoFS.Base.Parse
import NeoFS.Model.ACL
namespace NeoFS.Driver
open NeoFS.ACL

def aclVal (s : String) : String := if s == "~" then "" else s

def parseHdrs (s : String) : Option (List Hdr) :=
  if s == "-" then some []
  else (s.splitOn "|").mapM fun p =>
    match p.splitOn "," with
    | [k, v] => some { key := k, val := aclVal v }
    | _ => none

/-- `r3k1k2a4j0` -/
def parseTarget (s : String) : Option Target :=
  let rec go (cs : List Char) (cur : Option Char) (num : List Char) (t : Target) (fuel : Nat) : Option Target :=
    let flush (t : Target) : Option Target :=
      match cur with
      | none => if num.isEmpty then some t else none
      | some c =>
        match (String.ofList num.reverse).toNat? with
        | none => none
        | some n =>
          if c == 'r' then some { t with role := n }
          else if c == 'k' then some { t with keys := t.keys ++ [n] }
          else if c == 'a' then some { t with accounts := t.accounts ++ [n] }
          else if c == 'j' then some t
          else none
    match fuel, cs with
    | 0, _ => none
    | _, [] => flush t
    | fuel + 1, c :: rest =>
      if c.isDigit then go rest cur (c :: num) t fuel
      else match flush t with
        | none => none
        | some t' => go rest (some c) [] t' fuel
  go s.toList none [] { role := 0, keys := [], accounts := [] } (s.length + 1)

def parseFilter (s : String) : Option Filter :=
  match s.splitOn "," with
  | [a, b, k, v] =>
    match a.toNat?, b.toNat? with
    | some src, some m => some { src := src, matcher := m, key := k, val := aclVal v }
    | _, _ => none
  | _ => none

def parseRecord (s : String) : Option Record :=
  match s.splitOn "/" with
  | [a, o, ts, fs] =>
    match a.toNat?, o.toNat?,
      (if ts == "-" then some [] else (ts.splitOn "|").mapM parseTarget),
      (if fs == "-" then some [] else (fs.splitOn "|").mapM parseFilter) with
    | some act, some op, some tl, some fl => some { action := act, op := op, targets := tl, filters := fl }
    | _, _, _, _ => none
  | _ => none

def parseTable (s : String) : Option Table :=
  if s == "-" then some [] else (s.splitOn ";").mapM parseRecord

def parseStored (s : String) : Option Stored :=
  if s == "none" then some .notFound
  else if s == "err" then some .error
  else (parseTable s).map .table

/-- `iss,sgn,sig,nbf,iat,exp,cnr,tgt` -/
def parseBearer (s : String) (tbl : String) : Option (Option Bearer) :=
  if s == "none" then some none
  else match (s.splitOn ",").mapM String.toNat?, parseTable tbl with
    | some [iss, sgn, sig, nbf, iat, exp, cnr, tgt], some t =>
      some (some { issuer := iss, signer := some sgn, sigOK := sig == 1, nbf := nbf, iat := iat, exp := exp,
                   cnr := if cnr == 0 then none else some cnr, target := if tgt == 0 then none else some tgt, table := t })
    | _, _ => none

def parsePhase (s : String) : Option Phase :=
  if s == "req" then some .req else if s == "bin" then some .bin else if s == "resp" then some .resp else none

def roleName : Role → String
  | .owner => "owner" | .container => "cnr" | .innerRing => "ir" | .others => "others"

def decisionName : Decision → String
  | .allow => "allow" | .allowRecheck => "allow-recheck" | .skip => "skip" | .denyToken => "deny-token"
  | .denyBearer => "deny-bearer" | .denyBasic => "deny-basic" | .denySticky => "deny-sticky" | .denyEACL => "deny-eacl"

def okUser (n : Nat) : Bool := 1 ≤ n && n < 7

def aclReqStep (o : OpLine) : String :=
  match o.nat? "op", o.nat? "put", (o.get? "ph").bind parsePhase, o.nat? "basic", o.nat? "snd", o.nat? "own",
        o.nats? "ir", o.nats? "cn", o.nat? "cnerr" with
  | some opn, some put, some ph, some basic, some snd, some own, some ir, some cn, some cnerr =>
    match o.nat? "oown", o.nat? "ttl", o.nat? "split", o.nat? "incnr", o.nat? "cur", (o.get? "st").bind parseStored,
          (o.get? "b").bind (fun b => parseBearer b ((o.get? "bt").getD "?")), (o.get? "xh").bind parseHdrs with
    | some oown, some ttl, some split, some incnr, some cur, some st, some b, some xh =>
      match o.nat? "loc", o.nat? "oid", (o.get? "oattr").bind parseHdrs, o.nat? "oep", o.nat? "osz", Op.ofNum? opn with
      | some loc, some hasOid, some oattr, some oep, some osz, some op =>
        if !(okUser snd && okUser own && okUser oown) then "=> bad-op"
        else
          let isPut := put == 1
          let od : ObjDesc := { owner := oown, epoch := oep, size := osz, tomb := isPut && opn == 4, attrs := oattr, hasOid := hasOid == 1 }
          let r : Req :=
            { op := op, isPut := isPut, basic := basic, cnr := 1, cnrOwner := own, author := snd, key := snd, keyUser := some snd,
              inIR := ir.contains snd, inCnr := if cnerr == 1 then none else some (cn.contains snd),
              objOwner := oown, ttl := ttl, split := split != 0, serverInCnr := incnr == 1, cur := cur,
              bearer := b, stored := st,
              hdrs := hdrSource op isPut ph xh od (loc == 1) (split == 2) }
          let d := decide r
          let role := match d with
            | .denyToken | .skip | .denyBearer => "-"
            | _ => roleName (classify r)
          "=> role=" ++ role ++ " d=" ++ decisionName d
      | _, _, _, _, _, _ => "=> bad-op"
    | _, _, _, _, _, _, _, _ => "=> bad-op"
  | _, _, _, _, _, _, _, _, _ => "=> bad-op"

def aclStep (o : OpLine) : String :=
  match o.name with
  | "req" => aclReqStep o
  | _ => "=> bad-op"

end NeoFS.Driver
