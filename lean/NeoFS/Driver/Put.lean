import NeoFS.Base.Parse
import NeoFS.Model.Put
namespace NeoFS.Driver
open NeoFS.Put

/-- node lists separated by `0` -/
def splitLists (xs : List Nat) : List (List Nat) :=
  let (cur, out) := xs.foldl (fun (acc : List Nat × List (List Nat)) x =>
    if x = 0 then ([], acc.2 ++ [acc.1]) else (acc.1 ++ [x], acc.2)) ([], [])
  out ++ [cur]

/-- a schedule of one REP group from the seed: rotate, and reverse for odd seeds -/
def groupSched (seed : Nat) (g : List Nat) : List Nat :=
  let k := seed % (g.length + 1)
  let r := g.drop k ++ g.take k
  if seed % 2 = 1 then r.reverse else r

/-- thread picks of one EC rule from the seed (a linear congruential sequence) -/
def ecPicks (seed rule : Nat) : List Nat :=
  let rec go : Nat → Nat → List Nat → List Nat
    | 0, _, acc => acc
    | n + 1, x, acc => let y := (x * 1103515245 + 12345) % 2147483648; go n y ((y / 65536) % 8 :: acc)
  if seed % 5 = 0 then [] else go (seed % 97) (seed * 31 + rule) []

def showRes : Res → String
  | .ok => "ok" | .incomplete => "incomplete" | .err => "err" | .panic => "panic"

def sortNats (l : List Nat) : List Nat := l.mergeSort (· ≤ ·)

/-- thread picks of the forced interleavings of op `ecrace`: the part threads of a rule move in lock-step
(every thread performs its k-th critical section before any performs its (k+1)-th) -/
def putLockstepPicks (ecs : List (Nat × Nat)) (lists : List (List Nat)) (nrep rule : Nat) : List Nat :=
  let dp := ecs.getD rule (0, 0)
  let n := (lists.getD (nrep + rule) []).length
  (List.replicate (2 * n + 2) (List.range (dp.1 + dp.2))).flatten

def putSaveStep (o : OpLine) (lockstep : Bool) : String :=
    match o.nat? "typ", o.nats? "rep", o.nats? "ec", o.nats? "lists", o.nat? "local", o.nat? "signer", o.nats? "part" with
    | some typ, some rep, some ec, some lists, some loc, some signer, some part =>
      match o.nat? "init", o.nats? "lim", o.nat? "max", o.nat? "pl", o.nats? "fail", o.nat? "sched" with
      | some ini, some lim, some mx, some pl, some fail, some seed =>
        let ls := splitLists lists
        if ls.length ≠ rep.length + ec.length then "=> bad-op" else
        let ecPart := match part with | [r, p] => some (r, p) | _ => none
        if part.length ≠ 0 && part.length ≠ 2 then "=> bad-op" else
        let ini' : Option Initial :=
          if ini == 1 then some { limits := lim, maxReplicas := mx, preferLocal := pl == 1 } else none
        let ecs : List (Nat × Nat) := ec.map fun e => (e / 100, e % 100)
        let locN : Option Nat := if loc = 0 then none else some loc
        let req : Req := Req.mk typ rep ecs ls locN (signer == 1) ecPart ini'
        let picks := if lockstep then putLockstepPicks ecs ls rep.length else ecPicks seed
        let (s, res) := saveObject (fun _ n => !fail.contains n) (groupSched seed) picks req
        if res == .panic then "=> panic" else
        let base := s!"=> {showRes res} asked={showNats (sortNats s.g.asked)} acks={showNats (sortNats s.g.acks)}"
        if res == .ok then base ++ s!" ec={showNats (sortNats s.applied)}" else base
      | _, _, _, _, _, _ => "=> bad-op"
    | _, _, _, _, _, _, _ => "=> bad-op"

def putStep (o : OpLine) : String :=
  match o.name with
  | "save" => putSaveStep o false
  | "ecrace" =>
    -- the same case run under forced interleavings of the EC part routines, `trials` times: one verdict
    match o.nat? "trials" with
    | some t => if t < 1 || t > 1000 then "=> bad-op" else putSaveStep o true
    | none => "=> bad-op"
  | _ => "=> bad-op"

end NeoFS.Driver
