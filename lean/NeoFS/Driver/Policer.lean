import NeoFS.Base.Parse
import NeoFS.Model.Policer
namespace NeoFS.Driver
open NeoFS.Policer

/-- `1.2.3/4.5` → lists of node numbers; `-` is an empty list (also as a single list) -/
def polLists (s : String) : Option (List (List Nat)) :=
  if s == "-" then some []
  else (s.splitOn "/").mapM fun l => if l == "-" then some [] else (l.splitOn ".").mapM String.toNat?

def polPairs (s : String) : Option (List (Nat × Nat)) :=
  if s == "-" then some []
  else (s.splitOn ",").mapM fun l =>
    match l.splitOn "." with
    | [a, b] => match a.toNat?, b.toNat? with
      | some x, some y => some (x, y)
      | _, _ => none
    | _ => none

def polAns (c : Char) : Option Ans :=
  match c with
  | 'h' => some .holds | 'n' => some .notFound | 'm' => some .maint | 'e' => some .err | _ => none

def polType (s : String) : Option OType :=
  match s with
  | "REG" => some .regular | "TS" => some .tombstone | "LOCK" => some .lock | "LINK" => some .link | _ => none

def polNet (s : String) : Option NetRes :=
  match s with
  | "ok" => some .ok | "nocnr" => some .noContainer | "err" => some .otherErr | _ => none

def polBit (s : String) : Option Bool :=
  match s with
  | "1" => some true | "0" => some false | _ => none

def polDots (l : List Nat) : String := if l.isEmpty then "-" else String.intercalate "." (l.map toString)

def polTask (t : Task) : String := s!"{t.quantity}:{polDots t.nodes}:{polDots t.done}"

def polOutBody (o : Out) : String :=
  let dels := if o.dels.isEmpty then "-" else String.ofList (o.dels.map fun m => match m with | .dflt => 'D' | .redundant => 'R')
  let tasks := if o.tasks.isEmpty then "-" else String.intercalate ";" (o.tasks.map polTask)
  s!"del={dels} shards={if o.shardDrop then 1 else 0} heads={showNats o.heads} tasks={tasks}"

def polOut (o : Out) : String := "=> ok " ++ polOutBody o

structure PolPassIn where
  env : Env
  legacy : Bool
  obj : Obj
  plc : Placement

def polParsePass (o : OpLine) : Option PolPassIn := do
  let typ ← (o.get? "typ").bind polType
  let ec ← match o.get? "ec" with
    | some "-" => some none
    | some s => (polPairs s).bind fun l => match l with | [p] => some (some p) | _ => none
    | none => none
  let net ← (o.get? "net").bind polNet
  let rep ← o.nats? "rep"
  let ecr ← (o.get? "ecr").bind polPairs
  let lists ← (o.get? "lists").bind polLists
  let me ← o.nat? "me"
  let innm ← (o.get? "innm").bind polBit
  let maint ← o.nats? "maint"
  let ans ← (o.get? "ans").bind fun s => s.toList.mapM polAns
  let repl ← (o.get? "repl").bind fun s => s.toList.mapM fun c => polBit (String.singleton c)
  let stored ← (o.get? "stored").bind polBit
  let shards ← o.nat? "shards"
  let legacy ← (o.get? "legacy").bind polBit
  -- every node mentioned must have an answer and a replication outcome; the lists must fit the rules
  if repl.length ≠ ans.length || ans.length > 200 || me > 200 then none
  else if lists.any (fun l => l.any fun n => n = 0 || n > ans.length) then none
  else if net = .ok && lists.length ≠ rep.length + ecr.length then none
  else
    let env : Env := { me := me, inNetmap := innm, flag := fun n => maint.contains n,
                       ans := fun n => (ans[n - 1]?).getD .err, repl := fun n => (repl[n - 1]?).getD false,
                       readable := stored }
    some { env := env, legacy := legacy, obj := { typ := typ, ec := ec, shards := shards },
           plc := { net := net, lists := lists, rep := rep, ecRules := ecr } }

def polBits (s : String) : Option (List Bool) := s.toList.mapM fun c => polBit (String.singleton c)

def polDotList (s : String) : Option (List Nat) :=
  if s == "-" then some [] else (s.splitOn ".").mapM String.toNat?

/-- op `task`: the real `HandleTask` on one scripted task -/
def polParseTask (o : OpLine) : Option String := do
  let q ← o.nat? "q"
  let nodes ← (o.get? "nodes").bind polDotList
  let me ← o.nat? "me"
  let repl ← (o.get? "repl").bind polBits
  let cut ← o.nat? "cut"
  let cs ← (o.get? "cs").bind polBit
  let stored ← (o.get? "stored").bind polBit
  let obj ← (o.get? "obj").bind polBit
  if repl.length > 200 || me > 200 || q > 4294967295 || cut > repl.length then none
  else if nodes.any (fun n => n = 0 || (n > repl.length && n ≠ me)) then none
  else
    let env : Env := { me := me, inNetmap := true, flag := fun _ => false, ans := fun _ => .err,
                       repl := fun n => (repl[n - 1]?).getD false, readable := stored,
                       cutAt := if cut = 0 then none else some cut, cutStored := cs }
    let done := handleTaskC env obj q nodes
    let stored := (done.filter (· != me)).foldl (fun h n => addNode n h) []
    some s!"=> ok done={polDots done} stored={showNats stored}"

def polPairsShow (l : List (Nat × Nat)) : String :=
  if l.isEmpty then "-" else String.intercalate "," (l.map fun p => s!"{p.1}.{p.2}")

def polRecTask (t : RecTask) : String := s!"{t.part}:{polDots t.nodes}:{polDots t.done}"

/-- op `recreate`: the pass over a local EC part with a scripted state of the sibling parts -/
def polParseRecreate (o : OpLine) : Option String := do
  let rep ← o.nats? "rep"
  let ecr ← (o.get? "ecr").bind polPairs
  let lists ← (o.get? "lists").bind polLists
  let ri ← o.nat? "ri"
  let lp ← o.nat? "lp"
  let me ← o.nat? "me"
  let size ← o.nat? "size"
  let parts ← (o.get? "parts").map fun s => (s.splitOn ".").map fun t => t.toList.mapM polAns
  let parts ← parts.mapM id
  let rfail ← o.nats? "rfail"
  let ans ← (o.get? "ans").bind fun s => s.toList.mapM polAns
  let repl ← (o.get? "repl").bind polBits
  if repl.length ≠ ans.length || ans.length > 200 || me = 0 || me > ans.length || size = 0 || size > 4096 then none
  else if lists.any (fun l => l.any fun n => n = 0 || n > ans.length) then none
  else if lists.length ≠ rep.length + ecr.length then none
  else
    let plc : Placement := { lists := lists, rep := rep, ecRules := ecr }
    match ecr[ri]? with
    | none => none
    | some (d, par) =>
      let nodes := ecNodes plc ri
      let total := d + par
      -- a well-formed script: the rule splits (1..64 data, 1..64 parity parts), the local node is in the list of
      -- the rule and its nodes are distinct, one answer row per part with one answer per node of the list
      if d = 0 || d > 64 || par = 0 || par > 64 || lp ≥ total || !nodes.contains me || nodes.eraseDups.length ≠ nodes.length then none
      else if parts.length ≠ total || parts.any (fun r => r.length ≠ nodes.length) then none
      else
        let env : Env := { me := me, inNetmap := true, flag := fun _ => false,
                           ans := fun n => (ans[n - 1]?).getD .err, repl := fun n => (repl[n - 1]?).getD false }
        let pe : PartsEnv := { stat := fun p n => ((parts[p]?).bind fun r => r[nodes.idxOf n]?).getD .err,
                               rfail := fun p => rfail.contains p }
        let r := recreate env pe nodes total par lp
        let own := ecPartByRule env (partSeq nodes lp total)
        let recs := if r.2.isEmpty then "-" else String.intercalate ";" (r.2.map polRecTask)
        some s!"=> ok pheads={polPairsShow r.1.heads} ranges={polPairsShow r.1.ranges} rec={recs} {polOutBody own}"

def sortDedup (l : List Nat) : List Nat := l.foldl (fun h n => addNode n h) []

def policerStep (s : Cluster) (o : OpLine) : Cluster × String :=
  match o.name with
  | "pass" =>
    match polParsePass o with
    | some i => (s, polOut (processObject i.env i.legacy i.obj i.plc))
    | none => (s, "=> bad-op")
  | "cluster" =>
    match (o.get? "typ").bind polType, o.nats? "rep", (o.get? "lists").bind polLists, o.nats? "hold" with
    | some typ, some rep, some lists, some hold =>
      if lists.length ≠ rep.length || lists.any (fun l => l.any fun n => n = 0 || n > 200) || hold.any (fun n => n = 0 || n > 200) then
        (s, "=> bad-op")
      else
        let cl : Cluster := { typ := typ, plc := { lists := lists, rep := rep }, hold := sortDedup hold }
        (cl, s!"=> ok hold={showNats cl.hold}")
    | _, _, _, _ => (s, "=> bad-op")
  | "round" =>
    match o.nats? "order", o.nats? "down", o.nats? "maint" with
    | some order, some down, some maint =>
      let r := round s order down maint
      (r.1, s!"=> ok hold={showNats r.1.hold} tasks={r.2.1} drops={showNats r.2.2}")
    | _, _, _ => (s, "=> bad-op")
  | "task" => (s, (polParseTask o).getD "=> bad-op")
  | "recreate" => (s, (polParseRecreate o).getD "=> bad-op")
  | _ => (s, "=> bad-op")

end NeoFS.Driver
