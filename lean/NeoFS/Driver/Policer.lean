import NeoFS.Base.Parse
import NeoFS.Model.Policer
namespace NeoFS.Driver
open NeoFS.Policer

/-- `1.2.3/4.5` → lists of node numbers; `-` is an empty list (also as a single list) -/
def polLists (s : String) : Option (List (List Nat)) :=
  if s == "-" then some []
  else (s.splitOn "/").mapM fun l => if l == "-" then some [] else (l.splitOn ".").mapM String.toNat?

def polPairs (s : String) : Option (List (Nat × Nat)) :=
  if s == "-" then some []
  else (s.splitOn ",").mapM fun l =>
    match l.splitOn "." with
    | [a, b] => match a.toNat?, b.toNat? with
      | some x, some y => some (x, y)
      | _, _ => none
    | _ => none

def polAns (c : Char) : Option Ans :=
  match c with
  | 'h' => some .holds | 'n' => some .notFound | 'm' => some .maint | 'e' => some .err | _ => none

def polType (s : String) : Option OType :=
  match s with
  | "REG" => some .regular | "TS" => some .tombstone | "LOCK" => some .lock | "LINK" => some .link | _ => none

def polNet (s : String) : Option NetRes :=
  match s with
  | "ok" => some .ok | "nocnr" => some .noContainer | "err" => some .otherErr | _ => none

def polBit (s : String) : Option Bool :=
  match s with
  | "1" => some true | "0" => some false | _ => none

def polDots (l : List Nat) : String := if l.isEmpty then "-" else String.intercalate "." (l.map toString)

def polTask (t : Task) : String := s!"{t.quantity}:{polDots t.nodes}:{polDots t.done}"

def polOut (o : Out) : String :=
  let dels := if o.dels.isEmpty then "-" else String.ofList (o.dels.map fun m => match m with | .dflt => 'D' | .redundant => 'R')
  let tasks := if o.tasks.isEmpty then "-" else String.intercalate ";" (o.tasks.map polTask)
  s!"=> ok del={dels} shards={if o.shardDrop then 1 else 0} heads={showNats o.heads} tasks={tasks}"

structure PolPassIn where
  env : Env
  legacy : Bool
  obj : Obj
  plc : Placement

def polParsePass (o : OpLine) : Option PolPassIn := do
  let typ ← (o.get? "typ").bind polType
  let ec ← match o.get? "ec" with
    | some "-" => some none
    | some s => (polPairs s).bind fun l => match l with | [p] => some (some p) | _ => none
    | none => none
  let net ← (o.get? "net").bind polNet
  let rep ← o.nats? "rep"
  let ecr ← (o.get? "ecr").bind polPairs
  let lists ← (o.get? "lists").bind polLists
  let me ← o.nat? "me"
  let innm ← (o.get? "innm").bind polBit
  let maint ← o.nats? "maint"
  let ans ← (o.get? "ans").bind fun s => s.toList.mapM polAns
  let repl ← (o.get? "repl").bind fun s => s.toList.mapM fun c => polBit (String.singleton c)
  let stored ← (o.get? "stored").bind polBit
  let shards ← o.nat? "shards"
  let legacy ← (o.get? "legacy").bind polBit
  -- every node mentioned must have an answer and a replication outcome; the lists must fit the rules
  if repl.length ≠ ans.length || ans.length > 200 || me > 200 then none
  else if lists.any (fun l => l.any fun n => n = 0 || n > ans.length) then none
  else if net = .ok && lists.length ≠ rep.length + ecr.length then none
  else
    let env : Env := { me := me, inNetmap := innm, flag := fun n => maint.contains n,
                       ans := fun n => (ans[n - 1]?).getD .err, repl := fun n => (repl[n - 1]?).getD false,
                       readable := stored }
    some { env := env, legacy := legacy, obj := { typ := typ, ec := ec, shards := shards },
           plc := { net := net, lists := lists, rep := rep, ecRules := ecr } }

def sortDedup (l : List Nat) : List Nat := l.foldl (fun h n => addNode n h) []

def policerStep (s : Cluster) (o : OpLine) : Cluster × String :=
  match o.name with
  | "pass" =>
    match polParsePass o with
    | some i => (s, polOut (processObject i.env i.legacy i.obj i.plc))
    | none => (s, "=> bad-op")
  | "cluster" =>
    match (o.get? "typ").bind polType, o.nats? "rep", (o.get? "lists").bind polLists, o.nats? "hold" with
    | some typ, some rep, some lists, some hold =>
      if lists.length ≠ rep.length || lists.any (fun l => l.any fun n => n = 0 || n > 200) || hold.any (fun n => n = 0 || n > 200) then
        (s, "=> bad-op")
      else
        let cl : Cluster := { typ := typ, plc := { lists := lists, rep := rep }, hold := sortDedup hold }
        (cl, s!"=> ok hold={showNats cl.hold}")
    | _, _, _, _ => (s, "=> bad-op")
  | "round" =>
    match o.nats? "order", o.nats? "down" with
    | some order, some down =>
      let r := round s order down
      (r.1, s!"=> ok hold={showNats r.1.hold} tasks={r.2.1} drops={showNats r.2.2}")
    | _, _ => (s, "=> bad-op")
  | _ => (s, "=> bad-op")

end NeoFS.Driver
