import NeoFS.Base.Parse
import NeoFS.Model.Dump
namespace NeoFS.Driver
open NeoFS.Dump

def expandChunks (s : String) : List Nat :=
  if s == "-" || s == "" then [] else
  (s.splitOn ",").flatMap fun p =>
    match p.splitOn "x" with
    | [k, v] => List.replicate (k.toNat?.getD 0) (v.toNat?.getD 0)
    | [v] => [v.toNat?.getD 0]
    | _ => []

def dumpStep (o : OpLine) : String :=
  match o.name with
  | "restore" =>
    match o.nats? "ids", o.nats? "lens", o.int? "corrupt" with
    | some ids, some lens, some corrupt =>
      -- object i of the dump: its id as the first byte (0 when the record is corrupted), then filler
      let objs := (ids.zip lens).zipIdx.map fun ((id, l), i) =>
        (if (i : Int) == corrupt then 0 else id) :: List.replicate (l - 1) 7
      let valid := fun (b : List Nat) => b.head? != some 0
      let r := restore valid (o.get? "ignore" == some "1") true ⟨dump objs, expandChunks ((o.get? "chunks").getD "-")⟩
      let show_ (tag : String) (a : List (List Nat)) (f : Nat) : String :=
        let got := (a.map fun b => b.headD 0).mergeSort (· ≤ ·)
        s!"=> {tag} count={a.length} fail={f} restored={showNats got}"
      match r with
      | .done a f => show_ "ok" a f
      | .error a f => show_ "err" a f
      | .badMagic => "=> badmagic count=0 fail=0 restored=-"
    | _, _, _ => "=> bad-op"
  | _ => "=> bad-op"

end NeoFS.Driver
