import NeoFS.Base.Parse
import NeoFS.Model.FSTree
/-! Line-protocol driver of `Model/FSTree.lean` (engine `fstree`, properties C10, C12, C13). -/
namespace NeoFS.Driver
open NeoFS.FSTree

structure FSt where
  cfg : Cfg := {}
  k : K := {}
  codec : List (Bytes × Bytes) := []     -- stored (compressed) bytes ↦ plain bytes, learnt from the put lines
  dead : Bool := false                   -- after a panic or a blocked call nothing more is driven

/-- the payload both sides regenerate: byte i = (i*7 + seed) % 251 -/
def fsDetPayload (n seed : Nat) : Bytes := (List.range n).map fun i => (i * 7 + seed) % 251

def fsHash (b : Bytes) : Nat := b.foldl (fun h x => (h * 131 + x + 1) % 1000000007) 7

def tableDec (t : List (Bytes × Bytes)) (d : Bytes) : Option Bytes := t.lookup d

/-- item `sfx` of a put line: address, stored bytes, plain bytes when the stored form is compressed -/
def fsItem (o : OpLine) (sfx : String) : Option (Nat × Bytes × Option Bytes) :=
  match o.nat? ("a" ++ sfx), o.bytes? ("pre" ++ sfx), o.nat? ("psize" ++ sfx), o.nat? ("seed" ++ sfx) with
  | some a, some pre, some ps, some sd =>
    let plain := pre ++ fsDetPayload ps sd
    match o.get? ("z" ++ sfx) with
    | none => some (a, plain, none)
    | some _ =>
      match o.bytes? ("z" ++ sfx) with
      | some z => some (a, z, some plain)
      | none => none
  | _, _, _, _ => none

def fsItems (o : OpLine) : Option (List (Nat × Bytes × Option Bytes)) :=
  match o.nat? "n" with
  | none => none
  | some n => (List.range n).mapM fun i => fsItem o (toString i)

def fsOracle (o : OpLine) : Oracle :=
  let fs := (o.nats? "f").getD []
  let fp := (o.nat? "fp").getD 1000000000
  let c := o.nat? "c"
  let cp := (o.nat? "cp").getD 0
  fun i => if some i == c then some (.crash cp) else if fs.contains i then some (.err fp) else none

def fstreeShowRes (r : Except Err Bytes) : String :=
  match r with
  | .ok b => s!"ok {b.length}:{fsHash b}"
  | .error .notFound => "notFound"
  | .error .eof => "eof"
  | .error _ => "err"

def fsDump (s : FSt) : String :=
  let es := (iterate (tableDec s.codec) s.k).mergeSort (fun a b => a.1 ≤ b.1)
  if es.isEmpty then "-" else
  "[" ++ String.intercalate " " (es.map fun p =>
    match p.2 with
    | .ok b => s!"{p.1}:{b.length}:{fsHash b}"
    | .error _ => s!"{p.1}:err") ++ "]"

/-- per name: size of the file it points to and the smallest address sharing that file -/
def fsLayout (s : FSt) : String :=
  let es := s.k.dir.mergeSort (fun a b => a.1 ≤ b.1)
  if es.isEmpty then "-" else
  "[" ++ String.intercalate " " (es.map fun p =>
    let grp := (s.k.dir.filter (fun q => q.2 == p.2)).map (·.1)
    s!"{p.1}:{(s.k.inodes.getD p.2 []).length}:{grp.foldl min p.1}") ++ "]"

def outName : Out → String
  | .ok => "ok" | .notFound => "notFound" | .eof => "eof" | .err => "err" | .blocked => "blocked"

def learn (s : FSt) (its : List (Nat × Bytes × Option Bytes)) : FSt :=
  { s with codec := its.foldl (fun t it => match it.2.2 with
      | some plain => if (t.lookup it.2.1).isSome then t else (it.2.1, plain) :: t
      | none => t) s.codec }

def hasSub (s sub : String) : Bool := (s.splitOn sub).length > 1

/-- sub-operations of a `kseq` line: `p<i>` put item i, `b<i><j>…` PutBatch of the items, `d<i>` delete item i's address -/
def fsSeqOps (its : List (Nat × Bytes × Option Bytes)) (spec : String) : Option (List Api) :=
  if spec == "-" || spec == "" then some [] else
  (spec.splitOn ",").mapM fun tok =>
    match tok.toList with
    | kind :: digits =>
      match digits.mapM (fun c => if c.isDigit then its[c.toNat - '0'.toNat]? else none) with
      | none => none
      | some sel =>
        match kind, sel with
        | 'p', [it] => some (Api.put it.1 it.2.1)
        | 'd', [it] => some (Api.del it.1)
        | 'b', _ => if sel.isEmpty then none else some (Api.batch (sel.map fun it => (it.1, it.2.1)))
        | _, _ => none
    | [] => none

def fsDedupAdj : List String → List String
  | a :: b :: rest => if a == b then fsDedupAdj (b :: rest) else a :: fsDedupAdj (b :: rest)
  | l => l

def fsSortedSet (l : List String) : List String := fsDedupAdj (l.mergeSort (fun a b => !(b < a)))

def fsPhaseRes : GPhase → String
  | .done true => "ok"
  | .done false => "err"
  | _ => "pending"


/-- finish an op: crash ⇒ recover + CleanUpTmp; panic / blocked ⇒ dead -/
def fsFinish (s : FSt) (k : K) (res : String) (showN : Bool) (c : Option Nat := none) : FSt × String :=
  -- the process also counts as stopped when it exits right after the last system call of the op
  let crashed := k.crashed || c == some k.n
  let k' := if crashed then cleanUpTmp (recover k) else k
  let res := if k.panicked then "panic" else if hasSub res "blocked" then "blocked" else res
  let dead := res == "panic" || res == "blocked"
  let s' := { s with k := { k' with panicked := false }, dead := dead }
  let nStr := if showN && !crashed && !dead then s!" n={k.n}" else ""
  (s', s!"=> {if crashed then "crashed" else res}{nStr} | {if dead then "dead" else fsDump s'}")

def fstreeStep (s : FSt) (o : OpLine) : FSt × String :=
  if o.name == "cfg" then
    match o.get? "writer", o.nat? "thr", o.nat? "cnt", o.nat? "szl" with
    | some w, some thr, some cnt, some szl =>
      if w != "linux" && w != "generic" then (s, "=> bad-op") else
      let flag := fun (k : String) => (o.nat? k).getD 1 != 0
      ({ cfg := { generic := w == "generic", threshold := thr, countLimit := cnt, sizeLimit := szl,
                  noSync := (o.nat? "nosync").getD 1 != 0, bufLen := (o.nat? "buf").getD 20480,
                  precFixed := flag "pf", unlockFixed := flag "uf", tailFixed := flag "tf" } }, "=> ok")
    | _, _, _, _ => (s, "=> bad-op")
  else if s.dead then (s, "=> dead")
  else
  let s := { s with k := { s.k with n := 0, crashed := false } }
  let orc := fsOracle o
  let dec := tableDec s.codec
  match o.name with
  | "put" =>
    match fsItem o "" with
    | some it =>
      let s := learn s [it]
      let r := put s.cfg orc s.k it.1 it.2.1
      fsFinish s r.1 (outName r.2) true (o.nat? "c")
    | none => (s, "=> bad-op")
  | "batch" =>
    match fsItems o with
    | some its =>
      let s := learn s its
      let r := putBatch s.cfg orc s.k (its.map fun it => (it.1, it.2.1))
      fsFinish s r.1 (outName r.2) true (o.nat? "c")
    | none => (s, "=> bad-op")
  | "pput" =>
    -- concurrent single puts of distinct addresses: the lock-protected sections in item order, then the timer
    match fsItems o with
    | some its =>
      let s := learn s its
      let (k, rs) := its.foldl (fun (acc : K × List (Nat ⊕ Out)) it =>
        let d := it.2.1
        if d = [] then (acc.1, acc.2 ++ [.inr .eof])
        else if s.cfg.generic ∨ d.length > s.cfg.threshold ∨ s.cfg.countLimit < 2 then
          let r := put s.cfg orc acc.1 it.1 d; (r.1, acc.2 ++ [.inr r.2])
        else
          let r := writeCombined s.cfg orc acc.1 it.1 d
          (r.1, acc.2 ++ [match r.2 with | .blocked => .inr .blocked | .failed => .inr .err | .pending i => .inl i]))
        (s.k, [])
      let k := tick s.cfg orc k
      let outs := rs.map fun r => match r with
        | .inr x => outName x
        | .inl i => if doneErr k i then "err" else "ok"
      fsFinish s k (String.intercalate "," outs) false
    | none => (s, "=> bad-op")
  | "del" =>
    match o.nat? "a" with
    | some a => let r := delete orc s.k a; fsFinish s r.1 (outName r.2) true (o.nat? "c")
    | none => (s, "=> bad-op")
  | "kseq" =>
    -- a short sequence of calls run by one process on a fresh tree, killed at every system call in turn
    match fsItems o, o.get? "setup", o.get? "ops" with
    | some its, some pre, some spec =>
      match fsSeqOps its pre, fsSeqOps its spec with
      | some preOps, some seqOps =>
        let s := learn s its
        let k0 := runApi s.cfg noFault {} preOps
        let k0 := { k0 with n := 0 }
        let imgs := crashImages s.cfg k0 seqOps
        let states := fsSortedSet (imgs.map fun k => fsDump { s with k := k })
        (s, s!"=> ok states={states.length} {String.intercalate ";" states} | {fsDump s}")
      | _, _ => (s, "=> bad-op")
    | _, _, _ => (s, "=> bad-op")
  | "gsched" =>
    -- concurrent puts on the portable writer, one system call of one caller per schedule entry
    match fsItems o, o.nats? "sched" with
    | some its, some sched =>
      if !s.cfg.generic || its.any (fun it => it.2.1.isEmpty) then (s, "=> bad-op") else
      let s := learn s its
      let ws : List GW := its.map fun it => { a := it.1, d := it.2.1 }
      match o.nat? "c" with
      | some c =>
        let r := gsched noFault s.k ws (sched.take c)
        let s' := { s with k := cleanUpTmp (recover r.1) }
        (s', s!"=> crashed | {fsDump s'}")
      | none =>
        let (st, snaps) := sched.foldl (fun (acc : (K × List GW) × List String) n =>
          let st := gschedStep noFault acc.1 n
          (st, acc.2 ++ [fsDump { s with k := cleanUpTmp (recover st.1) }])) ((s.k, ws), [])
        let fin := gsched noFault st.1 st.2 (gfinishSched ws.length)
        let s' := { s with k := fin.1 }
        let res := String.intercalate "," (fin.2.map fun w => fsPhaseRes w.ph)
        (s', s!"=> {res} snaps={String.intercalate ";" (fsDedupAdj snaps)} | {fsDump s'}")
    | _, _ => (s, "=> bad-op")
  | "get" | "getb" =>
    match o.nat? "a" with
    | some a => (s, s!"=> {fstreeShowRes (get dec s.k a)} | {fsDump s}")
    | none => (s, "=> bad-op")
  | "stream" =>
    match o.nat? "a" with
    | some a => (s, s!"=> {fstreeShowRes (getStream s.cfg dec s.k a)} | {fsDump s}")
    | none => (s, "=> bad-op")
  | "head" =>
    match o.nat? "a" with
    | some a =>
      let r := match getStream s.cfg dec s.k a with | .ok _ => "ok" | .error .notFound => "notFound" | .error .eof => "eof" | .error _ => "err"
      (s, s!"=> {r} | {fsDump s}")
    | none => (s, "=> bad-op")
  | "exists" =>
    match o.nat? "a" with
    | some a => (s, s!"=> {if «exists» s.k a then "yes" else "no"} | {fsDump s}")
    | none => (s, "=> bad-op")
  | "iter" => (s, s!"=> ok | {fsDump s}")
  | "layout" => (s, s!"=> ok {fsLayout s} | {fsDump s}")
  | "reopen" =>
    let k := reopen s.cfg noFault s.k
    let s' := { s with k := k }
    (s', s!"=> ok | {fsDump s'}")
  | _ => (s, "=> bad-op")

end NeoFS.Driver
