import NeoFS.Driver.Meta
import NeoFS.Model.Resync
/-
Driver of engine `resync` (C18).  A sequence first defines its world (`def`: the one header chain an address
denotes), then rebuilds the metabase from chosen blob orders (`run`), drives `PutBatch` directly (`batch`) or
builds states incrementally (`put`, `epoch`, the ops of the `meta` engine).
-/
namespace NeoFS.Driver.Resync
open NeoFS NeoFS.Meta NeoFS.Resync NeoFS.Driver

structure State where
  world : List ((Nat × Nat) × List Hdr) := []
  ms : MetaState := {}
  /-- addresses whose `putw` was accepted, in history order, each once (the stored blobs) -/
  accepted : List (Nat × Nat) := []

/-- `1/4,1/7,2/3` → addresses; `-` is the empty list -/
def parseAddrs (s : String) : Option (List (Nat × Nat)) :=
  if s == "-" || s == "" then some []
  else (s.splitOn ",").mapM fun t =>
    match t.splitOn "/" with
    | [a, b] => match a.toNat?, b.toNat? with
      | some x, some y => some (x, y)
      | _, _ => none
    | _ => none

/-- the defined objects among the addresses, in the given order (undefined addresses are dropped) -/
def lookup (w : List ((Nat × Nat) × List Hdr)) (addrs : List (Nat × Nat)) : List Obj :=
  addrs.filterMap fun a => (w.find? (·.1 == a)).map fun e => (a.1, e.2)

def indexDump (db : DB) : String :=
  let j (xs : List String) : String := if xs.isEmpty then "-" else String.intercalate "," xs
  let recs := db.flatMap fun b => b.2.recs.map fun r => s!"{b.1}/{r.id}{if r.phy then "" else "v"}"
  let garb := db.flatMap fun b => b.2.garb.map fun g => s!"{b.1}/{g.1}"
  let cnrs := db.map fun b => toString b.1
  s!"idx={j recs} garb={j garb} cnrs={j cnrs}"

def fullDump (s : MetaState) : String := metaDump s ++ " " ++ indexDump s.db

/-- the blobs are unsplit objects forming a set of the fragment of `resync_perm_invariant_partial` -/
def inFragment (objs : List Obj) : Bool :=
  objs.all (fun o => o.2.length == 1) &&
    plainObjs (objs.filterMap fun o => o.2.head?.map fun h => (o.1, h))

def repeatList (xs : List Obj) : Nat → List Obj
  | 0 => []
  | n + 1 => xs ++ repeatList xs n

def step (s : State) (o : OpLine) : State × String :=
  match o.name with
  | "def" =>
    match o.nat? "c", o.nat? "o" with
    | some c, some id =>
      ({ s with world := ((c, id), parseChain o) :: s.world.filter (·.1 != (c, id)) }, "=> ok")
    | _, _ => (s, "=> bad-op")
  | "batchsize" => (s, s!"=> {resyncBatchSize}")
  | "run" =>
    match o.nat? "e", (o.get? "order").bind parseAddrs with
    | some e, some order =>
      let tail := ((o.get? "tail").bind parseAddrs).getD []
      let rep := (o.nat? "rep").getD 1
      let objs := repeatList (lookup s.world order) rep ++ lookup s.world tail
      let (db, err) := resync e objs
      let ms : MetaState := { s.ms with db := db, epoch := e }
      ({ s with ms := ms }, "=> " ++ errCode err ++ " " ++ fullDump ms ++ " frag=" ++ (if inFragment objs then "1" else "0"))
    | _, _ => (s, "=> bad-op")
  | "batch" =>
    match (o.get? "objs").bind parseAddrs with
    | some objs =>
      let (db, err) := putBatch s.ms.db s.ms.epoch (lookup s.world objs)
      let ms : MetaState := { s.ms with db := db }
      ({ s with ms := ms }, "=> " ++ errCode err ++ " " ++ fullDump ms)
    | none => (s, "=> bad-op")
  | "putw" =>
    -- `DB.Put` of a world object (incremental construction)
    match o.nat? "c", o.nat? "o" with
    | some c, some id =>
      match lookup s.world [(c, id)] with
      | [obj] =>
        let (db, e) := dbPut s.ms.db s.ms.epoch obj.1 obj.2
        let ms : MetaState := { s.ms with db := db }
        let acc := if e == .ok && !s.accepted.contains (c, id) then s.accepted ++ [(c, id)] else s.accepted
        ({ s with ms := ms, accepted := acc }, "=> " ++ errCode e ++ " " ++ fullDump ms)
      | _ => (s, "=> undefined")
    | _, _ => (s, "=> bad-op")
  | "rebuild" =>
    let objs := lookup s.world s.accepted
    let (db, err) := resync s.ms.epoch objs
    let ms : MetaState := { s.ms with db := db }
    ({ s with ms := ms }, "=> " ++ errCode err ++ " " ++ fullDump ms ++ " frag=" ++ (if inFragment objs then "1" else "0"))
  | "epoch" | "put" | "mark" | "delete" =>
    let (ms, res) := metaApply s.ms o
    if res == "=> bad-op" then (s, res) else ({ s with ms := ms }, res ++ " " ++ fullDump ms)
  | _ => (s, "=> bad-op")

end NeoFS.Driver.Resync

namespace NeoFS.Driver

def resyncStep (s : Resync.State) (o : OpLine) : Resync.State × String := Resync.step s o

end NeoFS.Driver
