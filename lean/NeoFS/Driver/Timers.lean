import NeoFS.Base.Parse
import NeoFS.Model.Timers
namespace NeoFS.Driver
open NeoFS.Timers

def timerFracs : List (Nat × Nat) := [(1, 2), (1, 1), (3, 2), (0, 1), (2, 3)]

def timersStep (et : ET) (o : OpLine) : ET × String :=
  match o.name with
  | "new" => (Timers.new timerFracs, "=> ok")
  | "reset" =>
    match o.nat? "lt", o.nat? "dur" with
    | some lt, some dur => (reset et lt dur, "=> ok")
    | _, _ => (et, "=> bad-op")
  | "update" =>
    match o.nat? "t" with
    | some t =>
      let (et', fe, fd) := update et t
      (et', s!"=> ok e={if fe then 1 else 0} d={String.intercalate "," (fd.map fun b => if b then "1" else "0")}")
    | none => (et, "=> bad-op")
  | _ => (et, "=> bad-op")

end NeoFS.Driver
