import NeoFS.Base.Parse
import NeoFS.Model.Timers
namespace NeoFS.Driver
open NeoFS.Timers

def timerFracs : List (Nat × Nat) := [(1, 2), (1, 1), (3, 2), (0, 1), (2, 3)]

/-- `in=e0|e1` (a new-epoch handler) or `in=d<i>` (sub-epoch handler i) -/
def timersSite? (s : String) : Option Site :=
  if s == "e0" || s == "e1" then some .epoch
  else if s.startsWith "d" then
    match (s.drop 1).toNat? with
    | some i => if i < timerFracs.length then some (.delta i) else none
    | none => none
  else none

def timersCall? (o : OpLine) : Option Atom :=
  match o.get? "call" with
  | some "reset" =>
    match o.nat? "lt", o.nat? "dur" with
    | some lt, some dur => some (.rst lt dur)
    | _, _ => none
  | some "update" => (o.nat? "t2").map .upd
  | _ => none

def timersShow (outs : List (Bool × List Bool)) (n : Nat) : String :=
  let e := (outs.filter (·.1)).length
  let d := (List.range n).map fun i => (outs.filter fun x => x.2.getD i false).length
  s!"e={e} d={String.intercalate "," (d.map toString)}"

def timersStep (et : ET) (o : OpLine) : ET × String :=
  match o.name with
  | "new" => (Timers.new timerFracs, "=> ok")
  | "reset" =>
    match o.nat? "lt", o.nat? "dur" with
    | some lt, some dur => (reset et lt dur, "=> ok")
    | _, _ => (et, "=> bad-op")
  | "update" =>
    match o.nat? "t", o.get? "in" with
    | some t, none =>
      let (et', fe, fd) := update et t
      (et', s!"=> ok e={if fe then 1 else 0} d={String.intercalate "," (fd.map fun b => if b then "1" else "0")}")
    | some t, some site =>
      -- a handler of this UpdateTime starts a Reset / UpdateTime in another goroutine and waits a bounded
      -- time for it: the call is blocked until this UpdateTime returns and takes effect right after it
      match timersSite? site, timersCall? o with
      | some s, some call =>
        let ev := Ev.overlapped t s call
        let atoms := ev.atoms et
        (afterAtoms et atoms, s!"=> ok {timersShow (runAtoms et atoms) et.dhs.length} started={atoms.length - 1}")
      | _, _ => (et, "=> bad-op")
    | none, _ => (et, "=> bad-op")
  | _ => (et, "=> bad-op")

end NeoFS.Driver
