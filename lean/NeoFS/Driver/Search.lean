import NeoFS.Base.Parse
import NeoFS.Model.Search
namespace NeoFS.Driver.SearchD
open NeoFS.Search

structure SearchState where
  hdrs : List Hdr := []
  marked : List Nat := []
  epoch : Nat := 0

def aExpiration : Bytes := str "__NEOFS__EXPIRATION_EPOCH"

/-- `strconv.ParseUint(s, 10, 64)`. -/
def parseUint64 (s : Bytes) : Option Nat :=
  if s.isEmpty then none
  else if s.all (fun c => 48 ≤ c && c ≤ 57) then
    let v := s.foldl (fun acc c => acc * 10 + (c - 48)) 0
    if v < 2 ^ 64 then some v else none
  else none

/-- the engine's regime: removal marks, tombstones and expiration only (no locks, no stored parents). -/
def sAvail (s : SearchState) (id : Nat) : Bool :=
  !s.marked.contains id
  && !s.hdrs.any (fun h => h.typ = str "TOMBSTONE" && h.assoc = id)
  && !s.hdrs.any (fun h => h.id = id && h.attrs.any (fun p => p.1 = aExpiration &&
        (match parseUint64 p.2 with | some e => decide (s.epoch > e) | none => false)))

def sObjs (s : SearchState) : List Obj :=
  s.hdrs.map fun h => { id := h.id, attrs := indexAttrs h, avail := sAvail s h.id }

def parseHexList (s : String) : Option (List Bytes) :=
  if s == "-" || s == "" then some [] else (s.splitOn ",").mapM hexToBytes

def parsePairs (s : String) : Option (List (Bytes × Bytes)) :=
  if s == "-" || s == "" then some []
  else (s.splitOn ",").mapM fun p =>
    match p.splitOn ":" with
    | [k, v] => match hexToBytes k, hexToBytes v with
      | some a, some b => some (a, b)
      | _, _ => none
    | _ => none

def parseOpName : String → Option Op
  | "EQ" => some .eq | "NE" => some .ne | "PFX" => some .pfx | "NP" => some .np
  | "GT" => some .gt | "GE" => some .ge | "LT" => some .lt | "LE" => some .le | "FLAG" => some .flag
  | _ => none

def parseFilters (s : String) : Option (List Filter) :=
  if s == "-" || s == "" then some []
  else (s.splitOn ",").mapM fun p =>
    match p.splitOn ":" with
    | [a, o, v] => match hexToBytes a, parseOpName o, hexToBytes v with
      | some a, some o, some v => some ⟨a, o, v⟩
      | _, _, _ => none
    | _ => none

def parseVer (s : String) : Option (Nat × Nat) :=
  match s.splitOn "." with
  | [a, b] => match a.toNat?, b.toNat? with
    | some x, some y => some (x, y)
    | _, _ => none
  | _ => none

def parseHdr (o : OpLine) : Option Hdr := do
  let id ← o.nat? "o"
  let typ ← o.get? "typ"
  let (vj, vn) ← (o.get? "ver").bind parseVer
  let owner ← o.bytes? "own"
  let ce ← o.nat? "ce"
  let size ← o.nat? "size"
  let cs ← o.bytes? "cs"
  let sp ← o.get? "split"
  let split ← if sp == "-" then some none else (hexToBytes sp).map some
  let first ← o.nat? "first"
  let par ← o.nat? "par"
  let assoc ← o.nat? "assoc"
  let attrs ← (o.get? "attrs").bind parsePairs
  if owner.length != 25 || cs.length != 32 || (match split with | some s => s.length != 16 | none => false) then none
  else some { id, typ := str typ, verMaj := vj, verMin := vn, owner, ce, size, cs, split, first, par, assoc, attrs }

def aContainerID : Bytes := str "$Object:containerID"
def aObjectID : Bytes := str "$Object:objectID"

/-- what the object service checks before `PreprocessSearchQuery` (plus: numeric matchers only where they are defined). -/
def queryValid (fs : List Filter) (attrs : List Bytes) : Bool :=
  fs.length ≤ 8 && attrs.length ≤ 8
  && fs.all (fun f =>
      !f.attr.isEmpty && f.attr ≠ aContainerID && f.attr ≠ aObjectID && f.attr ≠ aHomo
      && (if f.attr = aRoot ∨ f.attr = aPhy then f.op = .flag && f.val.isEmpty
          else f.op ≠ .flag && !(codedAttrs.contains f.attr && f.op.isInt)))
  && attrs.all (fun a => !a.isEmpty && a ≠ aContainerID && a ≠ aObjectID)
  && (attrs.isEmpty || (match fs with | f0 :: _ => attrs.head? = some f0.attr | [] => false))

def showItem (it : Item) : String :=
  toString it.id ++ String.join (it.attrs.map fun a => "/" ++ bytesToHex a)

def showItems (its : List Item) : String :=
  if its.isEmpty then "-" else String.intercalate "," (its.map showItem)

def showPage (r : Res) : String :=
  showItems r.items ++ "|" ++ (match r.cursor with | some c => bytesToHex c | none => "-")

/-- status and printed pages of a page chain. -/
def showChain : List (Except PErr Res) → List String → String
  | [], acc => "=> ok" ++ (if acc.isEmpty then "" else " " ++ String.intercalate ";" acc.reverse)
  | .error .unreachable :: _, acc => "=> unreachable" ++ (if acc.isEmpty then "" else " " ++ String.intercalate ";" acc.reverse)
  | .error .invalid :: _, acc => "=> err" ++ (if acc.isEmpty then "" else " " ++ String.intercalate ";" acc.reverse)
  | .ok r :: rest, acc =>
    if r.err then "=> dberr" ++ (if acc.isEmpty then "" else " " ++ String.intercalate ";" acc.reverse)
    else showChain rest (showPage r :: acc)

def searchStep (s : SearchState) (o : OpLine) : SearchState × String :=
  match o.name with
  | "obj" =>
    match parseHdr o with
    | none => (s, "=> bad-op")
    | some h =>
      if s.hdrs.any (·.id = h.id) then (s, "=> dup")
      -- a tombstone for a stored tombstone is refused by the metabase (no locks in this engine's regime)
      else if h.typ = str "TOMBSTONE" && (h.assoc = 0 || s.hdrs.any (fun t => t.id = h.assoc && t.typ = str "TOMBSTONE")) then (s, "=> err")
      else ({ s with hdrs := s.hdrs ++ [h] }, "=> ok")
  | "mark" =>
    match o.nats? "ids" with
    | some ids => ({ s with marked := s.marked ++ ids }, "=> ok")
    | none => (s, "=> bad-op")
  | "del" =>   -- physical removal of stored objects: they leave the index entirely
    match o.nats? "ids" with
    | some ids => ({ s with hdrs := s.hdrs.filter (fun h => !ids.contains h.id), marked := s.marked.filter (fun m => !ids.contains m) }, "=> ok")
    | none => (s, "=> bad-op")
  | "epoch" =>
    match o.nat? "e" with
    | some e => ({ s with epoch := e }, "=> ok")
    | none => (s, "=> bad-op")
  | "q" =>
    match (o.get? "f").bind parseFilters, (o.get? "at").bind parseHexList, o.nats? "pg" with
    | some fs, some attrs, some pg =>
      if pg.isEmpty || pg.any (fun p => p < 1 || p > 1000) || !queryValid fs attrs then (s, "=> bad-op")
      else (s, showChain (pages (sObjs s) fs attrs 200 pg none) [])
    | _, _, _ => (s, "=> bad-op")
  | _ => (s, "=> bad-op")

end NeoFS.Driver.SearchD

namespace NeoFS.Driver
abbrev SearchState := SearchD.SearchState
def searchStep := SearchD.searchStep
end NeoFS.Driver
