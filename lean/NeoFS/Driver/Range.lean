import NeoFS.Base.Parse
import NeoFS.Model.Range
namespace NeoFS.Driver
open NeoFS.Range

def errClassOf (e : String) : String :=
  if e == "ErrObjectOutOfRange" then "outOfRange" else "other"

def rangeStep (o : OpLine) : String :=
  match o.name with
  | "resolve" =>
    match o.nat? "mode", o.nat? "first", o.nat? "second", o.nat? "n" with
    | some m, some f, some s, some n =>
      match Gen.resolve f m s n with
      | .ok (off, ln) => s!"=> ok off={off} ln={ln}"
      | .error e => "=> err " ++ errClassOf e
    | _, _, _, _ => "=> bad-op"
  | "read" =>
    match o.nat? "size", o.nat? "mode", o.nat? "first", o.nat? "second" with
    | some sz, some m, some f, some s =>
      let rd := if o.get? "api" == some "parts" then readParts else readRange
      let pl := if o.get? "kind" == some "fstreezs" then semiPayload sz sz else detPayload sz sz
      match rd pl (min sz 100) m f s with
      | .ok bytes => s!"=> ok n={bytes.length} sum={fnv32a bytes}"
      | .error e => "=> err " ++ errClassOf e
    | _, _, _, _ => "=> bad-op"
  | _ => "=> bad-op"

end NeoFS.Driver
