import NeoFS.Base.Parse
import NeoFS.Model.Int256
namespace NeoFS.Driver
open NeoFS.Int256

def showOrd : Ordering → String
  | .lt => "lt" | .eq => "eq" | .gt => "gt"

def showDec (z : I256) : String := String.ofList (toDec z)

def int256Step (o : OpLine) : String :=
  match o.name with
  | "parse" =>
    match o.chars? "s" with
    | some s =>
      match parseDecimal s with
      | some z => "=> ok v=" ++ showDec z ++ " enc=" ++ bytesToHex (encode z)
      | none => "=> err"
    | none => "=> bad-op"
  | "norm" =>
    match o.chars? "s", o.nat? "neg" with
    | some s, some n =>
      match parseNormalized (n == 1) s with
      | some z => "=> ok v=" ++ showDec z
      | none => "=> err"
    | _, _ => "=> bad-op"
  | "split" =>
    match o.chars? "s" with
    | some s =>
      match splitIntString s with
      | some (neg, d) => "=> ok neg=" ++ toString neg ++ " d=" ++ String.ofList d
      | none => "=> err"
    | none => "=> bad-op"
  | "cmp" =>
    match o.get? "a", o.get? "b" with
    | some a, some b =>
      match parseDecimal a.toList, parseDecimal b.toList with
      | some x, some y => "=> ok cmp=" ++ showOrd (cmp x y) ++ " bytes=" ++ showOrd (lexCmp (encode x) (encode y))
      | _, _ => "=> err"
    | _, _ => "=> bad-op"
  | "cmpstr" =>
    match o.chars? "a", o.chars? "b" with
    | some a, some b =>
      match compareIntStrings a b with
      | some c => "=> ok cmp=" ++ showOrd c
      | none => "=> err"
    | _, _ => "=> bad-op"
  | "dec" =>
    match o.bytes? "b" with
    | some b =>
      match decode b with
      | some z => "=> ok v=" ++ showDec z ++ " enc=" ++ bytesToHex (encode z)
      | none => "=> err"
    | none => "=> bad-op"
  | _ => "=> bad-op"

end NeoFS.Driver
