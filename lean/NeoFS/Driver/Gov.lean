import NeoFS.Base.Parse
import NeoFS.Model.Governance
namespace NeoFS.Driver
open NeoFS.Gov

def govStep (o : OpLine) : String :=
  match o.name with
  | "alphabet" | "sync" =>
    match o.nats? "cur", o.nats? "main" with
    | some cur, some mn =>
      match newAlphabetList cur mn with
      | .error _ => "=> err"
      | .ok none => "=> ok none"
      | .ok (some na) =>
        if o.name == "alphabet" then "=> ok new=" ++ showNats na
        else match o.nats? "ring" with
          | some ring =>
            match updateInnerRing ring (sortKeys cur) na with
            | .ok r => "=> ok new=" ++ showNats na ++ " ring=" ++ showNats r
            | .error _ => "=> ok new=" ++ showNats na ++ " ring=err"
          | none => "=> bad-op"
    | _, _ => "=> bad-op"
  | "ring" =>
    match o.nats? "ring", o.nats? "before", o.nats? "after" with
    | some r, some b, some a =>
      match updateInnerRing r b a with
      | .ok x => "=> ok ring=" ++ showNats x
      | .error _ => "=> err"
    | _, _, _ => "=> bad-op"
  | _ => "=> bad-op"

end NeoFS.Driver
