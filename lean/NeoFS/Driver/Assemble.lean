import NeoFS.Base.Parse
import NeoFS.Model.Assemble
import NeoFS.Model.Range
namespace NeoFS.Driver
open NeoFS.Assemble

def asmErr : Err → String
  | .outOfRange => "outOfRange"
  | .notFound => "notFound"
  | .other => "other"

def asmShow : Res → String
  | .ok b => s!"=> ok n={b.length} sum={Range.fnv32a b}"
  | .error e => "=> err " ++ asmErr e

/-- `assemble read kind=… ver=… link=… sizes=… seed=… d=… p=… miss=… api=get|range mode=… first=… second=…` -/
def assembleStep (o : OpLine) : String :=
  match o.name with
  | "read" =>
    match o.get? "kind", o.nat? "ver", o.nat? "link", o.nats? "sizes", o.nat? "seed", o.nat? "d", o.nat? "p",
        o.nats? "miss", o.get? "api", o.nat? "mode", o.nat? "first", o.nat? "second" with
    | some kind, some ver, some link, some sizes, some seed, some d, some p, some miss, some api, some mode, some f, some s =>
      if mode > 4 || (api != "get" && api != "range") || (api == "range" && mode != 1) || f ≥ M64 || s ≥ M64 then "=> bad-op"
      else
        let payload := Range.detPayload sizes.sum seed
        let cs := cutBy sizes payload
        let ecObj (i : Nat) (pl : Bytes) : ECObj :=
          { d := d, p := p, payload := pl, present := (List.range (d + p)).map fun k => !miss.contains (i * 10 + k) }
        let ecOK := decide (1 ≤ d ∧ d + p ≤ 8)
        match kind with
        | "whole" => if sizes.length = 1 then asmShow (readWhole payload mode f s) else "=> bad-op"
        | "split" =>
          if sizes.length < 2 || (ver != 1 && ver != 2) then "=> bad-op"
          else if ver = 1 then asmShow (v1 cs (link == 1) mode f s)
          else if link == 1 then asmShow (v2Link cs mode f s)
          else asmShow (v2Last cs mode f s)
        | "ec" =>
          if sizes.length = 1 && ecOK then asmShow (ecRead (ecObj 0 payload) mode f s) else "=> bad-op"
        | "splitec" =>
          if sizes.length < 2 || ver != 2 || !ecOK then "=> bad-op"
          else
            let os := (List.range cs.length).map fun i => ecObj i (cs.getD i [])
            asmShow (splitEcRead os (link == 1) mode f s)
        | _ => "=> bad-op"
    | _, _, _, _, _, _, _, _, _, _, _, _ => "=> bad-op"
  | _ => "=> bad-op"

end NeoFS.Driver
