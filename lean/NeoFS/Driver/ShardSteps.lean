import NeoFS.Base.Parse
import NeoFS.Model.ShardSteps
namespace NeoFS.Driver
open NeoFS.ShardSteps

/-- ids the observation dumps (the harness uses 1..12) -/
def ssIds : List Nat := (List.range 13).drop 1

def ssErr : Err → String
  | .ok => "ok" | .notFound => "notFound" | .alreadyRemoved => "alreadyRemoved" | .expired => "expired"
  | .metaNoObject => "metaNoObject" | .other => "other"

def ssExists (s : St) (a : Nat) : String :=
  match status s a with
  | .expired => "E" | .tombstoned => "T" | .gcMarked => "G"
  | .available => if indexed s a then "A" else "N"

def ssGet (s : St) (a : Nat) : String :=
  match (get s a).1 with
  | .ok => "R" | .notFound => "n" | .alreadyRemoved => "t" | .expired => "e" | .metaNoObject => "M" | .other => "?"

def ssDump (s : St) : String :=
  let toks := ssIds.filterMap fun a =>
    if (s.blob a).isSome || (s.wc a).isSome || (s.idx a).isSome || (s.garb a).isSome then
      some (toString a ++ ":" ++ (if (s.blob a).isSome then "b" else "-") ++ (if (s.wc a).isSome then "w" else "-")
        ++ (if (s.idx a).isSome then "i" else "-") ++ (if (s.garb a).isSome then "g" else "-")
        ++ ssExists s a ++ ssGet s a)
    else none
  if toks.isEmpty then "-" else String.intercalate " " toks

/-- the name of the point the code passes right after a step of an operation -/
def ssPoint (o : Op) (st : Step) : String :=
  match o, st with
  | .put _ _, .blobPut _ _ | .put _ _, .wcPut _ _ => "shard.put.afterData"
  | .put _ _, .metaPut _ _ => "shard.put.afterMeta"
  | .put _ _, .wcDel _ => "shard.put.rollbackCache"
  | .put _ _, .blobDel _ => "shard.put.rollbackBlob"
  | .mark _ _, .metaMark _ _ => "shard.mark.afterMeta"
  | .mark _ _, .wcDel _ => "shard.mark.afterCache"
  | _, .metaDelete _ => "shard.delete.afterMeta"
  | .flushRace _, .blobPut _ _ => "wc.flush.afterMainPut"
  | _, .wcDel _ => (match o with | .flush _ => "wc.flush.afterCacheDelete" | _ => "shard.delete.afterCache")
  | _, .blobDel _ => "shard.delete.afterBlob"
  | _, .flushCopy _ => "wc.flush.afterMainPut"
  | _, .metaReset => "meta.resync.afterReset"
  | _, .resyncBatch _ => "end"
  | _, _ => "?"

def ssKind (o : OpLine) : Option Kind :=
  match o.get? "k" with
  | some "reg" => some .reg
  | some "ts" => match o.nat? "tg", o.nat? "exp" with
    | some tg, some x => some (.ts tg x)
    | _, _ => none
  | _ => none

def ssParse (o : OpLine) : Option Op :=
  match o.name with
  | "put" => match o.nat? "a", ssKind o, o.nat? "p" with
    | some a, some k, some p => some (.put a { kind := k, payload := p })
    | _, _, _ => none
  | "del" => (o.nats? "ids").map .delete
  | "mark" => match o.nats? "ids", o.get? "m" with
    | some ids, some "d" => some (.mark ids .dflt)
    | some ids, some "r" => some (.mark ids .redundant)
    | _, _ => none
  | "gc" => some .gc
  | "flush" => (o.nat? "a").map .flush
  | "flushall" => some (.flushAll ssIds)
  | "flushdel" => (o.nat? "a").map .flushRace
  | "epoch" => (o.nat? "e").map .epoch
  | "reopen" => some .reopen
  | "resync" => (o.nats? "order").map .resync
  | _ => none

def ssResult (s : St) : Op → String
  | .put a b => ssErr (putResult s a b)
  | _ => "ok"

def ssIdsOK : Op → Bool
  | .put a b => a < U && (match b.kind with | .ts tg _ => decide (tg < U) | .reg => true)
  | .delete ids | .mark ids _ | .resync ids => ids.all (· < U)
  | .flush a | .flushRace a => a < U
  | _ => true

def shardstStep (s : St) (o : OpLine) : St × String :=
  if o.name == "cfg" then
    match o.nat? "wc" with
    | some w => let s' : St := { hasWC := w != 0 }; (s', "=> ok " ++ ssDump s')
    | none => (s, "=> bad-op")
  else match ssParse o with
  | none => (s, "=> bad-op")
  | some op =>
    if !ssIdsOK op then (s, "=> bad-op") else
    match o.get? "crash" with
    | none => let s' := runOp s op; (s', "=> " ++ ssResult s op ++ " " ++ ssDump s')
    | some ks =>
      match ks.toNat? with
      | none | some 0 => (s, "=> bad-op")
      | some k =>
        -- the crashing run happens in a fresh process: restart, k steps of the operation, crash, restart
        let s1 := runOp s .reopen
        let steps := opSteps s1 op
        let s2 := runOp (crashOp s1 op k) .reopen
        let at_ := match steps[k - 1]? with
          | some st => if ssPoint op st == "end" then "crash@end" else "crash@" ++ ssPoint op st ++ "#" ++ toString k
          | none => "crash@end"
        (s2, "=> " ++ at_ ++ " " ++ ssDump s2)

end NeoFS.Driver
