import NeoFS.Base.Parse
import NeoFS.Model.Notary
import NeoFS.Driver.IRAuth
import NeoFS.Driver.IRIndexer
namespace NeoFS.Driver
open NeoFS.Notary

def argKindOf : Nat → Option ArgKind
  | 0 => some .bytes | 1 => some .junk | 2 => some .int01 | 3 => some .intN | 4 => some .boolT
  | 5 => some .null | 6 => some .list2 | 7 => some .cnr | 8 => some .node | 9 => some .pubkey
  | _ => none

def witnessOf (k : Nat) : Option Witness :=
  let inv : Option Inv := match k / 10 with | 0 => some .empty | 1 => some .dummy | 2 => some .other | _ => none
  let ver : Option Ver := match k % 10 with | 0 => some .empty | 1 => some .alpha | 2 => some .other | _ => none
  match inv, ver with
  | some i, some v => some ⟨i, v⟩
  | _, _ => none

def signerOf : Nat → Signer
  | 0 => .proxy | 1 => .alpha | 2 => .notary | _ => .other

def attrOf (a : Nat) : Attr := if a ≥ 100 then .notaryAssisted (a - 100) else .other

def fbAttrOf : Nat → FbAttr
  | 1 => .nvb | 2 => .conflicts | _ => .notaryAssisted

/-- `contract,method,valid,argkind…` ; contracts 0..4, methods 0..14 -/
def callOf (xs : List Nat) : Option Call :=
  match xs with
  | c :: m :: v :: args =>
    if c ≥ 5 || m ≥ 15 || v ≥ 2 then none
    else (args.mapM argKindOf).map fun ks => ⟨c, m, ks, v⟩
  | _ => none

/-- presence pattern of c1..c3 must be a prefix -/
def callsOf (o : OpLine) : Option (List Call) :=
  let get (k : String) : Option (Option Call) :=
    match o.get? k with
    | none => some none
    | some s => match parseNats s with
      | some xs => (callOf xs).map some
      | none => none
  match get "c1", get "c2", get "c3" with
  | some c1, some c2, some c3 =>
    match c1, c2, c3 with
    | none, none, none => some []
    | some a, none, none => some [a]
    | some a, some b, none => some [a, b]
    | some a, some b, some c => some [a, b, c]
    | _, _, _ => none
  | _, _, _ => none

/-- the (position, method) pairs for which the harness can make the handler validation succeed -/
def craftable (pos first : Nat) (c : Call) : Bool :=
  let b : ArgKind := .bytes
  if pos == 0 then
    c.contract == 0 &&
      ((c.method == 2 && c.args == [b, b, b, b, b, b, .boolT]) || (c.method == 3 && c.args == [.cnr, b, b, b]) ||
       ((c.method == 5 || c.method == 7) && c.args == [b, b, b, b]))
  else pos == 1 && first == 3 && c.args == [b, b, b, b]

def craftOk : Nat → Nat → List Call → Bool
  | _, _, [] => true
  | pos, first, c :: cs => (c.tag == 0 || craftable pos first c) && craftOk (pos + 1) first cs

def hvTag (_ : Nat) (c : Call) : Bool := c.tag == 1

def showOutcome : Outcome → String
  | .prepErr e => "=> " ++ e.show
  | .parseErr n => s!"=> ok n={n} ev=parseErr signed=0"
  | .handled n m s => s!"=> ok n={n} ev={m} signed={if s then 1 else 0}"

def notaryStep (o : OpLine) : String :=
  match o.nat? "alpha", o.nat? "ir", o.nats? "w", o.nats? "s", o.nats? "a", o.nats? "fa" with
  | some alpha, some ir, some w, some s, some a, some fa =>
    match o.nat? "nvb", o.nat? "h", o.nat? "local", o.nat? "dup", o.nat? "tail", callsOf o, w.mapM witnessOf with
    | some nvb, some h, some loc, some dup, some tail, some calls, some ws =>
      if alpha < 1 || alpha > 7 || tail > 1 || !(craftOk 0 ((calls.head?.map (·.method)).getD 0) calls) then "=> bad-op"
      else
        let env : Env := { alphaN := alpha, height := h, isAlphabet := ir == 1 }
        let r : Req := { seen := false, witnesses := ws, signers := s.map signerOf, attrs := a.map attrOf,
                         fbAttrs := fa.map fbAttrOf, nvb := nvb, fbFromLocal := loc == 1,
                         script := if tail == 1 then none else some calls }
        -- a request submitted twice: the second submission finds the hash cached iff the first was prepared
        let seen := dup == 1 && (match prepare irRegistry env r with | .ok _ => true | .error _ => false)
        showOutcome (handle irRegistry env hvTag { r with seen := seen })
    | _, _, _, _, _, _, _ => "=> bad-op"
  | _, _, _, _, _, _ => "=> bad-op"

/-- the `ix*` ops (caching indexer, C35) carry state; every other op of the engine is self-contained -/
def irStep (s : NeoFS.IRIndexer.St) (o : OpLine) : NeoFS.IRIndexer.St × String :=
  if o.name.startsWith "ix" then IRIdx.step s o
  else match o.name with
  | "notary" => (s, notaryStep o)
  | _ => (s, irAuthStep o)

end NeoFS.Driver
