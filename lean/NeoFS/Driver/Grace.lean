import NeoFS.Base.Parse
import NeoFS.Model.Grace
namespace NeoFS.Driver
open NeoFS.Grace

def graceStep (o : OpLine) : String :=
  match o.name with
  | "epoch" =>
    match o.int? "e", o.int? "unpaid", o.get? "pay", o.get? "perr", o.get? "lerr" with
    | some e, some u, some pay, some perr, some lerr =>
      s!"=> ok discarded={epochHandlerDiscards (pay != "1") (lerr == "1") (perr == "1") u e}"
    | _, _, _, _, _ => "=> bad-op"
  | "startup" =>
    match o.get? "src" with
    | some "found" => s!"=> ok discarded={startupDiscards .found}"
    | some "notfound" => s!"=> ok discarded={startupDiscards .notFound}"
    | some "transient" => s!"=> ok discarded={startupDiscards .transientErr}"
    | _ => "=> bad-op"
  | "startupn" =>
    -- several containers of one shard: the verdict about each one is `startupDiscards` of its own answer
    match o.get? "srcs" with
    | some srcs =>
      let one (a : String) : Option Bool :=
        if a == "found" then some (startupDiscards .found)
        else if a == "notfound" then some (startupDiscards .notFound)
        else if a == "transient" then some (startupDiscards .transientErr) else none
      let rs := (srcs.splitOn ",").map one
      if rs.any Option.isNone then "=> bad-op"
      else "=> ok discarded=" ++ ",".intercalate (rs.map fun r => toString (r.getD false))
    | none => "=> bad-op"
  | _ => "=> bad-op"

end NeoFS.Driver
