import NeoFS.Base.Parse
import NeoFS.Model.Engine
namespace NeoFS.Driver
open NeoFS.Engine

def engUniverse : List Nat := [1, 2, 3, 4, 5, 6, 7, 8]

def modeName : Mode → String
  | .rw => "rw" | .ro => "ro" | .deg => "deg" | .degRO => "degro" | .disabled => "off"

def parseMode : String → Option Mode
  | "rw" => some .rw | "ro" => some .ro | "deg" => some .deg | "degro" => some .degRO | "off" => some .disabled
  | _ => none

def kindName : Kind → String
  | .reg => "reg" | .ts => "ts" | .lock => "lock"

def parseKind : String → Option Kind
  | "reg" => some .reg | "ts" => some .ts | "lock" => some .lock
  | _ => none

def engErrName : Err → String
  | .notFound => "notFound" | .removed => "removed" | .expired => "expired" | .locked => "locked"
  | .lockNonRegular => "lockNonRegular" | .lockRemoval => "lockRemoval" | .readOnly => "readOnly"
  | .degraded => "degraded" | .io => "io" | .metaNF => "notFound" | .metaIO => "io"
  | .mustBeRO => "mustBeRO" | .split _ _ => "split" | .ecParts => "ecParts" | .outOfRange => "outOfRange"
  | .tsOnTs | .putShard | .inhumeFail | .noSpare | .blocked => "other"

def showObj (o : Obj) : String := s!"id={o.id} k={kindName o.kind} t={o.target} exp={o.exp}"

def showGetR : GetR → String
  | .ok o => "ok " ++ showObj o
  | .err e => engErrName e

def showOptErr : Option Err → String
  | none => "ok"
  | some e => engErrName e

def shardDump (ep : Nat) (s : Shard) : String :=
  let blobs := String.ofList (engUniverse.map fun id => if (s.blob id).isSome then '1' else '0')
  if s.mode.noMeta then s!"{modeName s.mode}/{s.errs}/-/{blobs}/-"
  else
    let codes := String.ofList (engUniverse.map fun id =>
      match s.mExists id ep with
      | .error .notFound => 'N' | .error .removed => 'R' | .error .expired => 'X' | .error _ => '?'
      | .ok true => 'K' | .ok false => 'n')
    let locks := String.ofList (engUniverse.map fun id => if s.locked id ep then '1' else '0')
    s!"{modeName s.mode}/{s.errs}/{codes}/{blobs}/{locks}"

def engDump (e : Eng) : String :=
  String.intercalate " " ((List.range e.shards.length).zip e.shards |>.map fun (i, s) => s!"s{i}={shardDump e.epoch s}")

def engObj (o : OpLine) : Option Obj :=
  match o.nat? "o", (o.get? "k").bind parseKind, o.nat? "t", o.nat? "exp" with
  | some id, some k, some t, some exp => some { id := id, kind := k, target := t, exp := exp }
  | _, _, _, _ => none

def engStep (e : Eng) (o : OpLine) : Eng × String :=
  let fin (r : Eng × String) : Eng × String := (r.1, "=> " ++ r.2 ++ " | " ++ engDump r.1)
  -- before `init` there is no engine: every other op is rejected (as the harness does)
  if o.name != "init" && e.shards.isEmpty then (e, "=> bad-op") else
  match o.name with
  | "init" =>
    match o.nat? "n", o.nat? "thr" with
    | some n, some thr =>
      if n == 0 || n > 4 then (e, "=> bad-op")
      else fin ({ shards := List.replicate n {}, thr := thr }, "ok")
    | _, _ => (e, "=> bad-op")
  | "put" =>
    match engObj o, o.nats? "ord", o.nats? "bord" with
    | some ob, some ord, some bord => let (e1, r) := e.put ob ord bord; fin (e1, showOptErr r)
    | _, _, _ => (e, "=> bad-op")
  | "get" =>
    match o.nat? "o", o.nats? "ord" with
    | some id, some ord => let (e1, r) := e.get id ord; fin (e1, showGetR r)
    | _, _ => (e, "=> bad-op")
  | "head" =>
    match o.nat? "o", o.nats? "ord" with
    | some id, some ord => let (e1, r) := e.head id ord; fin (e1, showGetR r)
    | _, _ => (e, "=> bad-op")
  | "del" =>
    match o.nat? "o", o.nats? "ord" with
    | some id, some ord => let (e1, r) := e.delete id ord; fin (e1, showOptErr r)
    | _, _ => (e, "=> bad-op")
  | "drop" =>
    match o.nat? "o", o.nats? "ord" with
    | some id, some ord => let (e1, r) := e.drop id ord; fin (e1, showOptErr r)
    | _, _ => (e, "=> bad-op")
  | "islocked" =>
    match o.nat? "o", o.nats? "bord" with
    | some id, some bord =>
      let (e1, r) := e.isLocked id bord
      fin (e1, match r with | .ok true => "ok locked=1" | .ok false => "ok locked=0" | .error er => engErrName er)
    | _, _ => (e, "=> bad-op")
  | "mode" =>
    match o.nat? "s", (o.get? "m").bind parseMode, o.nat? "reset" with
    | some i, some m, some r =>
      if i < e.shards.length then fin (e.setMode i m (r != 0), "ok") else (e, "=> bad-op")
    | _, _, _ => (e, "=> bad-op")
  | "fail" =>
    match o.nat? "s", o.nat? "r", o.nat? "w" with
    | some i, some r, some w =>
      match e.shards[i]? with
      | some s => fin (e.setShard i { s with failR := r != 0, failW := w != 0 }, "ok")
      | none => (e, "=> bad-op")
    | _, _, _ => (e, "=> bad-op")
  | "epoch" =>
    match o.nat? "e" with
    | some ep => fin (e.setEpoch ep, "ok")
    | none => (e, "=> bad-op")
  | "gc" =>
    match o.nat? "s", o.nats? "ord", o.nats? "bord" with
    | some i, some ord, some bord =>
      if i < e.shards.length then fin (e.gc i ord bord, "ok") else (e, "=> bad-op")
    | _, _, _ => (e, "=> bad-op")
  | "evac" =>
    match o.nats? "src", o.nats? "ord", o.nat? "ignore" with
    | some srcs, some ord, some ig =>
      let (e1, n, r) := e.evacuate srcs ord (ig != 0)
      fin (e1, showOptErr r ++ s!" moved={n}")
    | _, _, _ => (e, "=> bad-op")
  | _ => (e, "=> bad-op")

end NeoFS.Driver
