import NeoFS.Base.Parse
import NeoFS.Model.EC
import NeoFS.Model.ECBuf
import NeoFS.Model.Range
namespace NeoFS.Driver
open NeoFS.EC

/-- `ReconstructSome` as the library behaves around the law the theorems assume: nothing to do when no
required part is missing; too few parts is an error; otherwise every required part is restored. -/
def reconFlags (d n : Nat) (present required : List Nat) : Option String :=
  let missingReq := required.filter (fun i => !present.contains i)
  if present.isEmpty then none            -- "no shard data"
  else if missingReq.isEmpty then
    some (String.ofList ((List.range n).map fun i => if present.contains i then '1' else '0'))
  else if present.length < d then none
  else some (String.ofList ((List.range n).map fun i => if present.contains i || required.contains i then '1' else '0'))

def showSh : Sh → String
  | .view off => s!"v{off}"
  | .fresh _ => "f"

def parseRules (s : String) : Option (List (Nat × Nat)) :=
  (s.splitOn ",").mapM fun r =>
    match r.splitOn "/" with
    | [a, b] => do let x ← a.toNat?; let y ← b.toNat?; pure (x, y)
    | _ => none

def ecStep (o : OpLine) : String :=
  match o.name with
  | "nodeseq" =>
    match o.nat? "part", o.nat? "total", o.nat? "nodes" with
    | some p, some t, some n => "=> ok seq=" ++ showNats (EC.nodeSeq p t n)
    | _, _, _ => "=> bad-op"
  | "code" =>
    match o.nat? "d", o.nat? "p", o.nat? "len", o.nat? "seed", o.nats? "erase" with
    | some d, some p, some ln, some seed, some er =>
      let sz := if ln = 0 then 0 else perShard ln d
      -- the theorem `decode_any_subset`: with at most p parts erased the payload comes back
      if ln = 0 || er.length > p then s!"=> ok n={d + p} sz={sz} decode=err"
      else s!"=> ok n={d + p} sz={sz} decode={Range.fnv32a (Range.detPayload ln seed)}"
    | _, _, _, _, _ => "=> bad-op"
  | "recon" =>
    match o.nat? "d", o.nat? "p", o.nat? "len", o.nats? "present", o.nats? "required" with
    | some d, some p, some ln, some pr, some rq =>
      if ln = 0 then "=> ok recon=err" else
      match reconFlags d (d + p) pr rq with
      | some f => "=> ok recon=" ++ f
      | none => "=> ok recon=err"
    | _, _, _, _, _ => "=> bad-op"
  | "rrange" =>   -- `DecodeRange(rule, from, to, parts)`: the parts from..to INCLUSIVE are required
    match o.nat? "d", o.nat? "p", o.nat? "len", o.nats? "present", o.nat? "from", o.nat? "to" with
    | some d, some p, some ln, some pr, some fr, some to =>
      if ln = 0 || to < fr || to ≥ d + p then "=> bad-op" else
      match reconFlags d (d + p) pr ((List.range (to + 1)).filter (· ≥ fr)) with
      | some f => "=> ok recon=" ++ f
      | none => "=> ok recon=err"
    | _, _, _, _, _, _ => "=> bad-op"
  | "layout" =>
    match o.nat? "d", o.nat? "p", o.nat? "len", o.nat? "cap" with
    | some d, some p, some ln, some cp =>
      if ln = 0 then "=> ok sh=" ++ String.intercalate "," (List.replicate (d + p) "e") ++ " touched=0" else
      let b : Buf := { mem := List.replicate cp 0, len := ln }
      let (_, sh) := splitBuf d p b
      let need := (d + p) * perShard ln d
      let touched := if d + p = 1 then ln else if cp > ln then min cp need else ln
      "=> ok sh=" ++ String.intercalate "," (sh.map showSh) ++ s!" touched={touched}"
    | _, _, _, _ => "=> bad-op"
  | "multi" =>
    match (o.get? "rules").bind parseRules with
    | some rules => "=> ok intact=" ++ String.ofList (rules.map fun _ => '1')   -- theorem multi_rule_independent
    | none => "=> bad-op"
  | _ => "=> bad-op"

end NeoFS.Driver
