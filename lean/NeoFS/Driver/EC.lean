import NeoFS.Base.Parse
import NeoFS.Model.EC
namespace NeoFS.Driver

def ecStep (o : OpLine) : String :=
  match o.name with
  | "nodeseq" =>
    match o.nat? "part", o.nat? "total", o.nat? "nodes" with
    | some p, some t, some n => "=> ok seq=" ++ showNats (EC.nodeSeq p t n)
    | _, _, _ => "=> bad-op"
  | _ => "=> bad-op"

end NeoFS.Driver
