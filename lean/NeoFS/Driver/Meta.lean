import NeoFS.Base.Parse
import NeoFS.Model.Meta
namespace NeoFS.Driver
open NeoFS.Meta

structure MetaState where
  db : DB := []
  epoch : Nat := 0

def metaNC : Nat := 3
def metaNO : Nat := 12

def parseType (s : Option String) : OType :=
  match s with
  | some "TS" => .tombstone
  | some "LOCK" => .lock
  | some "LINK" => .link
  | some "SG" => .storageGroup
  | _ => .regular

def showType : OType → String
  | .tombstone => "TS" | .lock => "LOCK" | .link => "LINK" | .storageGroup => "SG" | .regular => "REG"

/-- one header with key prefix `pre` ("" self, "p." parent, "g." grandparent) -/
def parseHdr (o : OpLine) (pre : String) (parentId : Nat) : Hdr :=
  let n (k : String) : Nat := (o.nat? (pre ++ k)).getD 0
  let id := if pre == "" then (o.nat? "o").getD 0 else n "id"
  let par := n "par"
  { id := id, typ := parseType (o.get? (pre ++ "typ")), size := n "size",
    parentId := if parentId != 0 then parentId else par,
    firstId := n "first", splitId := n "split", assoc := n "assoc",
    exp := (o.chars? (pre ++ "exp")).map String.ofList,
    ec := match o.get? (pre ++ "ec") with
      | some s => match s.splitOn "/" with
        | [a, b] => some (a.toNat?.getD 0, b.toNat?.getD 0)
        | _ => none
      | none => none,
    otherSplit := o.get? (pre ++ "other") == some "1" }

/-- the header chain of a put line; a parent header is present iff `p.id` is given -/
def parseChain (o : OpLine) : List Hdr :=
  let hasP := (o.get? "p.id").isSome
  let hasG := (o.get? "g.id").isSome
  let gid := (o.nat? "g.id").getD 0
  let pid := (o.nat? "p.id").getD 0
  let g := if hasP && hasG then [parseHdr o "g." 0] else []
  let p := if hasP then [parseHdr o "p." (if hasG then gid else 0)] else []
  parseHdr o "" (if hasP then pid else 0) :: p ++ g

def errCode : Err → String
  | .ok => "K" | .notFound => "N" | .alreadyRemoved => "R" | .expired => "X" | .locked => "L"
  | .lockNonRegular => "Q" | .lockRemoval => "V" | .parentSplit => "S" | .parentEC => "E" | .other => "O"

def metaDump (s : MetaState) : String :=
  let addrs := (List.range metaNC).flatMap fun c => (List.range metaNO).map fun o => (c + 1, o + 1)
  let ex := String.join (addrs.map fun a =>
    let (b, e) := dbExists s.db a.1 a.2 s.epoch
    if e != .ok then errCode e else if b then "T" else "F")
  let ge := String.join (addrs.map fun a => errCode (dbGet s.db a.1 a.2 false s.epoch).1)
  let gr := String.join (addrs.map fun a => errCode (dbGet s.db a.1 a.2 true s.epoch).1)
  let lk := String.join (addrs.map fun a => if dbIsLocked s.db a.1 a.2 s.epoch then "1" else "0")
  -- listing pages of 3
  let rec pages (fuel : Nat) (cur : Option (Nat × Nat)) (acc : List String) : List String :=
    match fuel with
    | 0 => acc
    | fuel + 1 =>
      let (res, next) := dbList s.db 3 cur
      match next with
      | none => acc
      | some c => pages fuel (some c) (acc ++ res.map (fun a => s!"{a.1}/{a.2}") ++ ["|"])
  let list := pages 100 none []
  let exp := (dbExpired s.db s.epoch).map fun x => s!"{x.1}/{x.2.1}:{showType x.2.2}"
  let garb := (dbGarbage s.db 5).map fun b => s!"{b.1}:{String.intercalate "." (b.2.map toString)}"
  let ctr := dbCounters s.db
  let info := (List.range metaNC).map fun c => let i := dbContainerInfo s.db (c + 1); s!"{i.1}/{i.2}"
  let j (xs : List String) : String := if xs.isEmpty then "-" else String.intercalate "," xs
  s!"E={ex} G={ge} R={gr} L={lk} list={j list} exp={j exp} garb={j garb} ctr={ctr.phy},{ctr.root},{ctr.ts},{ctr.lock},{ctr.link},{ctr.gc},{ctr.payload} info={j info}"

def metaStep (s : MetaState) (o : OpLine) : MetaState × String :=
  let c := (o.nat? "c").getD 0
  let (s', res) : MetaState × String :=
    match o.name with
    | "epoch" => ({ s with epoch := (o.nat? "e").getD 0 }, "=> ok")
    | "put" =>
      let (db, e) := dbPut s.db s.epoch c (parseChain o)
      ({ s with db := db }, "=> " ++ errCode e)
    | "mark" =>
      ({ s with db := dbMarkGarbage s.db s.epoch c ((o.nats? "ids").getD []) (o.get? "red" == some "1") }, "=> K")
    | "inhumecnr" => ({ s with db := dbInhumeContainer s.db c }, "=> K")
    | "delcnr" => ({ s with db := dbDeleteContainer s.db c }, "=> K")
    | "delete" => ({ s with db := dbDelete s.db c ((o.nats? "ids").getD []) }, "=> K")
    | "revive" =>
      let (db, r) := dbRevive s.db c ((o.nat? "o").getD 0)
      ({ s with db := db }, match r with
        | .graveyard t => s!"=> graveyard tomb={t}"
        | .garbage => "=> garbage"
        | _ => "=> notrevived")
    | _ => (s, "=> bad-op")
  if res == "=> bad-op" then (s', res) else (s', res ++ " " ++ metaDump s')

end NeoFS.Driver
