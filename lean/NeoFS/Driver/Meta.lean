import NeoFS.Base.Parse
import NeoFS.Model.Meta
import NeoFS.Spec.MetaRef
namespace NeoFS.Driver
open NeoFS.Meta

structure MetaState where
  db : DB := []
  epoch : Nat := 0
  /-- print the reference views after every op (used when the check searches for a failing input) -/
  showRef : Bool := false
  /-- containers in which a removal mark was written for an id that is not a stored physical object
  (the history condition of known finding C02-gc-counter) -/
  tainted : List Nat := []

def metaNC : Nat := 3
def metaNO : Nat := 12

def parseType (s : Option String) : OType :=
  match s with
  | some "TS" => .tombstone
  | some "LOCK" => .lock
  | some "LINK" => .link
  | some "SG" => .storageGroup
  | _ => .regular

def showType : OType → String
  | .tombstone => "TS" | .lock => "LOCK" | .link => "LINK" | .storageGroup => "SG" | .regular => "REG"

/-- one header with key prefix `pre` ("" self, "p." parent, "g." grandparent) -/
def parseHdr (o : OpLine) (pre : String) (parentId : Nat) : Hdr :=
  let n (k : String) : Nat := (o.nat? (pre ++ k)).getD 0
  let id := if pre == "" then (o.nat? "o").getD 0 else n "id"
  let par := n "par"
  { id := id, typ := parseType (o.get? (pre ++ "typ")), size := n "size",
    parentId := if parentId != 0 then parentId else par,
    firstId := n "first", splitId := n "split", assoc := n "assoc",
    exp := (o.chars? (pre ++ "exp")).map String.ofList,
    ec := match o.get? (pre ++ "ec") with
      | some s => match s.splitOn "/" with
        | [a, b] => some (a.toNat?.getD 0, b.toNat?.getD 0)
        | _ => none
      | none => none,
    otherSplit := o.get? (pre ++ "other") == some "1" }

/-- the header chain of a put line; a parent header is present iff `p.id` is given -/
def parseChain (o : OpLine) : List Hdr :=
  let hasP := (o.get? "p.id").isSome
  let hasG := (o.get? "g.id").isSome
  let gid := (o.nat? "g.id").getD 0
  let pid := (o.nat? "p.id").getD 0
  let g := if hasP && hasG then [parseHdr o "g." 0] else []
  let p := if hasP then [parseHdr o "p." (if hasG then gid else 0)] else []
  parseHdr o "" (if hasP then pid else 0) :: p ++ g

def errCode : Err → String
  | .ok => "K" | .notFound => "N" | .alreadyRemoved => "R" | .expired => "X" | .locked => "L"
  | .lockNonRegular => "Q" | .lockRemoval => "V" | .parentSplit => "S" | .parentEC => "E" | .other => "O"

def metaDump (s : MetaState) : String :=
  let addrs := (List.range metaNC).flatMap fun c => (List.range metaNO).map fun o => (c + 1, o + 1)
  let ex := String.join (addrs.map fun a =>
    let (b, e) := dbExists s.db a.1 a.2 s.epoch
    if e != .ok then errCode e else if b then "T" else "F")
  let ge := String.join (addrs.map fun a => errCode (dbGet s.db a.1 a.2 false s.epoch).1)
  let gr := String.join (addrs.map fun a => errCode (dbGet s.db a.1 a.2 true s.epoch).1)
  let lk := String.join (addrs.map fun a => if dbIsLocked s.db a.1 a.2 s.epoch then "1" else "0")
  -- listing pages of 3
  let rec pages (fuel : Nat) (cur : Option (Nat × Nat)) (acc : List String) : List String :=
    match fuel with
    | 0 => acc
    | fuel + 1 =>
      let (res, next) := dbList s.db 3 cur
      match next with
      | none => acc
      | some c => pages fuel (some c) (acc ++ res.map (fun a => s!"{a.1}/{a.2}") ++ ["|"])
  let list := pages 100 none []
  let exp := (dbExpired s.db s.epoch).map fun x => s!"{x.1}/{x.2.1}:{showType x.2.2}"
  let garb := (dbGarbage s.db 5).map fun b => s!"{b.1}:{String.intercalate "." (b.2.map toString)}"
  let ctr := dbCounters s.db
  let info := (List.range metaNC).map fun c => let i := dbContainerInfo s.db (c + 1); s!"{i.1}/{i.2}"
  let j (xs : List String) : String := if xs.isEmpty then "-" else String.intercalate "," xs
  s!"E={ex} G={ge} R={gr} L={lk} list={j list} exp={j exp} garb={j garb} ctr={ctr.phy},{ctr.root},{ctr.ts},{ctr.lock},{ctr.link},{ctr.gc},{ctr.payload} info={j info}"

/-- compare every view of the model with the declarative reference; returns the failed assertions -/
def metaSpecFailures (s : MetaState) : List String :=
  let addrs := (List.range metaNC).flatMap fun c => (List.range metaNO).map fun o => (c + 1, o + 1)
  let exF := addrs.filterMap fun a =>
    let (b, e) := dbExists s.db a.1 a.2 s.epoch
    let m := if e != .ok then errCode e else if b then "T" else "F"
    let r := Ref.existsCode s.db a.1 a.2 s.epoch
    if m == r then none else some s!"exists-reports-reference-status@{a.1}/{a.2}(view={m},reference={r})"
  let geF := addrs.filterMap fun a =>
    let m := errCode (dbGet s.db a.1 a.2 false s.epoch).1
    let r := match Ref.existsCode s.db a.1 a.2 s.epoch with
      | "T" | "E" | "S" => "K"   -- a header read without the raw flag answers for (virtual) parents too
      | "F" => "N"
      | x => x
    let stored := match getCnr? s.db a.1 with
      | some c => (c.find? a.2).isSome
      | none => false
    let r := if r == "K" && !stored then "N" else r
    if m == r then none else some s!"get-reports-reference-status@{a.1}/{a.2}(view={m},reference={r})"
  let lkF := addrs.filterMap fun a =>
    let m := dbIsLocked s.db a.1 a.2 s.epoch
    let r := match getCnr? s.db a.1 with
      | some c => !c.gcMark && Ref.liveLock c s.epoch a.2
      | none => false
    if m == r then none else some s!"islocked-iff-live-lock@{a.1}/{a.2}(view={m},reference={r})"
  -- listing: all pages of size 3 concatenated
  let rec pages (fuel : Nat) (cur : Option (Nat × Nat)) (acc : List (Nat × Nat)) : List (Nat × Nat) :=
    match fuel with
    | 0 => acc
    | fuel + 1 =>
      let (res, next) := dbList s.db 3 cur
      match next with
      | none => acc
      | some c => pages fuel (some c) (acc ++ res)
  let listed := pages 100 none []
  let wantList := s.db.flatMap fun b => (Ref.liveObjects b.2).map fun r => (b.1, r.id)
  let liF := if listed == wantList then [] else [s!"listing-is-exactly-unmarked-physical-objects(view={listed.length},reference={wantList.length})"]
  let expM := ((dbExpired s.db s.epoch).map fun x => (x.1, x.2.1)).mergeSort fun a b => a.1 < b.1 || (a.1 == b.1 && a.2 ≤ b.2)
  let expR := Ref.expiredSet s.db s.epoch
  let exF2 := if expM == expR then [] else
    let extra := expM.filter (!expR.contains ·)
    let missing := expR.filter (!expM.contains ·)
    [s!"expired-iteration-is-exactly-expired-unlocked(extra={extra.map fun a => s!"{a.1}/{a.2}"},missing={missing.map fun a => s!"{a.1}/{a.2}"})"]
  let ctr := dbCounters s.db
  let rc := Ref.counters s.db
  let ctF := if (ctr.phy, ctr.root, ctr.ts, ctr.lock, ctr.link) == rc then [] else
    [s!"typed-counters-equal-indexed-objects(view={ctr.phy},{ctr.root},{ctr.ts},{ctr.lock},{ctr.link};reference={rc.1},{rc.2.1},{rc.2.2.1},{rc.2.2.2.1},{rc.2.2.2.2})"]
  let inF := (List.range metaNC).filterMap fun c =>
    let m := dbContainerInfo s.db (c + 1)
    let r := Ref.containerInfo s.db (c + 1)
    let cause := if s.tainted.contains (c + 1) then ",cause=removal-mark-on-id-that-is-not-a-stored-physical-object" else ""
    if m == r then none else some s!"container-info-equals-live-physical-objects@{c + 1}(view={m.1}/{m.2},reference={r.1}/{r.2}{cause})"
  exF ++ geF ++ lkF ++ liF ++ exF2 ++ ctF ++ inF

/-- the views as the reference rules define them, in the field syntax of `metaDump` -/
def metaRefDump (s : MetaState) : String :=
  let addrs := (List.range metaNC).flatMap fun c => (List.range metaNO).map fun o => (c + 1, o + 1)
  let ex := String.join (addrs.map fun a => Ref.existsCode s.db a.1 a.2 s.epoch)
  let lk := String.join (addrs.map fun a =>
    match getCnr? s.db a.1 with
    | some c => if !c.gcMark && Ref.liveLock c s.epoch a.2 then "1" else "0"
    | none => "0")
  let list := (s.db.flatMap fun b => (Ref.liveObjects b.2).map fun r => (b.1, r.id)).map fun a => s!"{a.1}/{a.2}"
  let exp := (Ref.expiredSet s.db s.epoch).map fun a => s!"{a.1}/{a.2}"
  let rc := Ref.counters s.db
  let info := (List.range metaNC).map fun c => let i := Ref.containerInfo s.db (c + 1); s!"{i.1}/{i.2}"
  let j (xs : List String) : String := if xs.isEmpty then "-" else String.intercalate "," xs
  s!"E={ex} L={lk} list={j list} exp={j exp} ctr={rc.1},{rc.2.1},{rc.2.2.1},{rc.2.2.2.1},{rc.2.2.2.2} info={j info}"

/-- the state change and result code of one operation line (no dump) -/
def metaApply (s : MetaState) (o : OpLine) : MetaState × String :=
  let c := (o.nat? "c").getD 0
  match o.name with
  | "epoch" => ({ s with epoch := (o.nat? "e").getD 0 }, "=> ok")
  | "put" =>
    let (db, e) := dbPut s.db s.epoch c (parseChain o)
    ({ s with db := db }, "=> " ++ errCode e)
  | "mark" =>
    ({ s with db := dbMarkGarbage s.db s.epoch c ((o.nats? "ids").getD []) (o.get? "red" == some "1") }, "=> K")
  | "inhumecnr" => ({ s with db := dbInhumeContainer s.db c }, "=> K")
  | "delcnr" => ({ s with db := dbDeleteContainer s.db c }, "=> K")
  | "sync" => ({ s with db := dbSyncCounters s.db }, "=> K")
  | "delete" => ({ s with db := dbDelete s.db c ((o.nats? "ids").getD []) }, "=> K")
  | "revive" =>
    let (db, r) := dbRevive s.db c ((o.nat? "o").getD 0)
    ({ s with db := db }, match r with
      | .graveyard t => s!"=> graveyard tomb={t}"
      | .garbage => "=> garbage"
      | _ => "=> notrevived")
  | _ => (s, "=> bad-op")

def metaStep (s : MetaState) (o : OpLine) : MetaState × String :=
  let c := (o.nat? "c").getD 0
  let (s', res) : MetaState × String := metaApply s o
  -- history condition of the known finding: does this op write a removal mark for an id that is not a
  -- stored physical object?
  let notPhy (cn : Cnr) (id : Nat) : Bool := !((cn.find? id).any (·.phy))
  let taints : Bool :=
    match some ((getCnr? s.db c).getD {}) with
    | none => false
    | some cn =>
      if cn.gcMark then false
      else match o.name with
        | "mark" => (((o.nats? "ids").getD []).flatMap fun id => id :: cn.collectChildren 4 id).any (notPhy cn)
        | "put" =>
          match parseChain o with
          | h :: _ => h.typ == .tombstone && h.assoc != 0 && res == "=> K" &&
              ((cn.collectChildren 4 h.assoc ++ [h.assoc]).any (notPhy cn))
          | [] => false
        | _ => false
  let s' := if o.name == "delcnr" then { s' with tainted := s'.tainted.filter (· != c) }
            else if taints && !s'.tainted.contains c then { s' with tainted := c :: s'.tainted } else s'
  -- admission rules of C07, checked against the reference predicates on the state before the put
  let admission : List String :=
    match o.name, parseChain o with
    | "put", h :: _ =>
      let pre := (getCnr? s.db c).getD {}
      let post := (getCnr? s'.db c).getD {}
      let newlyIndexed := (pre.find? h.id).isNone && (post.find? h.id).isSome
      if !newlyIndexed || h.assoc == 0 then []
      else if h.typ == .lock then
        (if Ref.tombstoned pre h.assoc then [s!"lock-rejected-for-tombstoned-object@{c}/{h.assoc}(lock={h.id})"] else [])
      else if h.typ == .tombstone then
        (if Ref.liveLock pre s.epoch h.assoc then [s!"tombstone-rejected-for-locked-object@{c}/{h.assoc}(tombstone={h.id})"] else []) ++
        (if pre.typeOf h.assoc == some .lock then [s!"lock-object-cannot-be-tombstoned@{c}/{h.assoc}(tombstone={h.id})"] else [])
      else []
    | _, _ => []
  if res == "=> bad-op" then (s', res)
  else
    let fails := admission ++ metaSpecFailures s'
    (s', res ++ " " ++ metaDump s' ++ (if fails.isEmpty then "" else " ## FAIL " ++ String.intercalate " " fails)
      ++ (if s'.showRef then " ## REF " ++ metaRefDump s' else ""))

end NeoFS.Driver
