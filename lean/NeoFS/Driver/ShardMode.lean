import NeoFS.Base.Parse
import NeoFS.Model.ShardMode
namespace NeoFS.Driver
open NeoFS.ShardMode

def modesNC : Nat := 2
def modesNO : Nat := 8

def modesErrName : Err → String
  | .ok => "ok" | .readOnly => "readOnly" | .degraded => "degraded" | .notFound => "notFound"
  | .alreadyRemoved => "alreadyRemoved" | .expired => "expired" | .locked => "locked"
  | .lockNonRegular => "lockNonRegular" | .lockRemoval => "lockRemoval" | .notRemoved => "notRemoved"
  | .cnrGarbage => "cnrGarbage" | .wcDisabled => "wcDisabled" | .compRefused => "compRefused"
  | .injected => "injected" | .other => "other"

def addrLE (a b : Addr) : Bool := a.1 < b.1 || (a.1 == b.1 && a.2 ≤ b.2)

def showAddrs (l : List Addr) : String :=
  if l.isEmpty then "-" else String.intercalate "," ((l.mergeSort addrLE).map fun a => s!"{a.1}/{a.2}")

def showBool (b : Bool) : String := if b then "1" else "0"

/-- the state dump both sides print after every operation -/
def modesDump (s : St) : String :=
  let addrs := (List.range modesNC).flatMap fun c => (List.range modesNO).map fun o => (c + 1, o + 1)
  let ex := String.join (addrs.map fun a =>
    let r := exists_ s a
    match r.2 with
    | .ok => if r.1 then "T" else "F"
    | .notFound => "N" | .alreadyRemoved => "R" | .expired => "X" | .compRefused => "C" | _ => "O")
  let wcm := if s.hasWC then s!"{s.wcMode},{showBool s.wcStoreRO}" else "-"
  s!"mode={s.mode} meta={s.metaMode},{showBool s.metaOpen} blobro={showBool s.blobRO} wcm={wcm} blob={showAddrs s.blob} wc={showAddrs s.wc} ex={ex}"

def modesHdr (o : OpLine) : Option Meta.Hdr :=
  match o.nat? "o" with
  | none => none
  | some id =>
    let typ : Option Meta.OType := match o.get? "typ" with
      | some "REG" | none => some .regular
      | some "TS" => some .tombstone
      | some "LOCK" => some .lock
      | _ => none
    typ.map fun t =>
      { id := id, typ := t, size := (o.nat? "size").getD 0, assoc := (o.nat? "assoc").getD 0,
        exp := (o.nat? "exp").map toString }

def parseFault : Option String → Option Fault
  | none | some "none" => some .none
  | some "metaEntry" => some .metaEntry
  | some "metaOpen" => some .metaOpen
  | some "blob" => some .blob
  | some "wc" => some .wc
  | _ => none

def modesStep (s : St) (o : OpLine) : St × String :=
  let bad : St × String := (s, "=> bad-op")
  let fin (r : St × Err) (extra : String := "") : St × String :=
    (r.1, "=> " ++ modesErrName r.2 ++ extra ++ " " ++ modesDump r.1)
  let addr? : Option Addr := match o.nat? "c", o.nat? "o" with
    | some c, some i => some (c, i)
    | _, _ => none
  match o.name with
  | "cfg" =>
    match o.nat? "wc" with
    | some w => fin ({ hasWC := w != 0 }, .ok)
    | none => bad
  | "put" =>
    match o.nat? "c", modesHdr o with
    | some c, some h => fin (step s (.put c h))
    | _, _ => bad
  | "get" => match addr? with
    | some a => fin (step s (.get a))
    | none => bad
  | "head" => match addr? with
    | some a => fin (step s (.head a))
    | none => bad
  | "exists" => match addr? with
    | some a => let r := exists_ s a; fin (s, r.2) (if r.2 == .ok then " " ++ showBool r.1 else "")
    | none => bad
  | "islocked" => match addr? with
    | some a => let r := isLocked s a; fin (s, r.2) (if r.2 == .ok then " " ++ showBool r.1 else "")
    | none => bad
  | "delete" =>
    match o.nat? "c", o.nats? "ids" with
    | some c, some ids => fin (step s (.delete c ids))
    | _, _ => bad
  | "mark" =>
    match o.nat? "c", o.nats? "ids", o.nat? "red" with
    | some c, some ids, some r => fin (step s (.mark c ids (r != 0)))
    | _, _, _ => bad
  | "inhumecnr" => match o.nat? "c" with
    | some c => fin (step s (.inhumeCnr c))
    | none => bad
  | "delcnr" => match o.nat? "c" with
    | some c => fin (step s (.deleteCnr c))
    | none => bad
  | "revive" => match addr? with
    | some a => fin (step s (.revive a.1 a.2))
    | none => bad
  | "list" => let r := list s; fin (s, r.2) (if r.2 == .ok then " " ++ showAddrs r.1 else "")
  | "select" => fin (step s .select)
  | "listcnr" => let r := listContainers s; fin (s, r.2) (if r.2 == .ok then " " ++ showNats r.1 else "")
  | "cinfo" => match o.nat? "c" with
    | some c => fin (step s (.cnrInfo c))
    | none => bad
  | "flush" => fin (step s .flush)
  | "flushtick" => fin (step s .flushTick)
  | "gc" => fin (step s .gc)
  | "epoch" => match o.nat? "e" with
    | some e => fin (step s (.epoch e))
    | none => bad
  | "restore" =>
    match o.nat? "c", o.nats? "ids" with
    | some c, some ids => fin (step s (.restore c (ids.map fun i => { id := i, typ := .regular, size := 0 })))
    | _, _ => bad
  | "reopen" => fin (step s .reopen)
  | "settle" => fin (step s .settle)
  | "restart" => match o.nat? "m" with
    | some m => fin (step s (.restart m))
    | none => bad
  | "setmode" =>
    match o.nat? "m", parseFault (o.get? "fail") with
    | some m, some f => fin (step s (.setMode m f))
    | _, _ => bad
  | _ => bad

end NeoFS.Driver
