import NeoFS.Base.Parse
import NeoFS.Gen.Handlers
import NeoFS.Model.CtlAuth
/-!
Model side of engine `rpc` (C29, C45, C32): the expected refusal of a request is computed from the
REGENERATED skeleton of the handler. A scenario forces the outcome of some checks (all others pass, results of
package-local helpers are unconstrained); the request is expected to be refused iff no real effect is
reachable in the skeleton under that scenario.
-/
namespace NeoFS.Driver
open NeoFS.Handlers

/-- scenario name → forced check outcomes and the status class a refusal must carry -/
def objScenario : String → Option (List (Tag × Out) × String)
  | "ok" => some ([], "ok")
  | "eaclsoft" => some ([(.eacl, .soft)], "ok")
  | "sig" | "nosig" => some ([(.sig, .deny)], "signature")
  | "maint" => some ([(.maint, .deny)], "maintenance")
  | "token" => some ([(.token, .deny)], "token")
  | "tokenbad" => some ([(.token, .deny)], "badrequest")
  | "reqinfo" => some ([(.reqInfo, .deny)], "badrequest")
  | "reqinfocnr" => some ([(.reqInfo, .deny)], "container")
  | "basic" => some ([(.basic, .deny)], "denied")
  | "eacl" => some ([(.eacl, .deny)], "denied")
  | "sticky" => some ([(.sticky, .deny)], "denied")
  | "skip" => some ([(.reqInfo, .soft)], "ok")
  | "objsig" => some ([(.objSig, .deny)], "badrequest")
  | "cnrsrv" => some ([(.cnrSrv, .deny)], "internal")
  | "cnrcli" => some ([(.cnrCli, .deny)], "container")
  | _ => none

/-- Expected fate of a request: refused iff the scenario denies a check the handler consults and the skeleton
performs no real effect while that check stands denied. -/
def verdict (p : Prog) (forced : List (Tag × Out)) : Bool :=
  let denies := forced.filter (·.2 == .deny)
  if denies.isEmpty || denies.all (fun f => !mentions f.1 p) then !reachesEffect forced p
  else noEffectWhileDenied forced p

def findHandler (l : List (String × Prog)) (h : String) : Option Prog := (l.find? (·.1 == h)).map (·.2)

/-- Control services: the hand model of `isValidRequest` says whether the request is acceptable (key 1 is
the configured administrator key); an unacceptable request is expected to be denied iff the regenerated
skeleton performs no effect while the signature verification stands denied. -/
def ctlVerdict (l : List (String × Prog)) (h sc : String) : String :=
  match findHandler l h, CtlAuth.reqOfKind sc with
  | some p, some r =>
    if CtlAuth.isValidRequest [1] r == .ok then "=> passed"
    else if verdict p [(.ctlSig, .deny)] then "=> denied" else "=> passed"
  | _, _ => "=> bad-op"

def rpcStep (o : OpLine) : String :=
  match o.name, o.get? "h", o.get? "sc" with
  | "obj", some h, some sc =>
    match findHandler Gen.objectHandlers h, objScenario sc with
    | some p, some (forced, cls) =>
      if sc == "chunkfirst" then "=> bad-op"
      else if !reachesEffect [] p then "=> refused st=stub"
      else if verdict p forced then "=> refused st=" ++ cls
      else "=> served"
    | some _, none =>
      -- a PUT stream that starts with a chunk: the handler hands the chunk to the Streamer (a `putCont` effect
      -- in the skeleton); the ASSUMPTION recorded in C29's policy is that the Streamer refuses it
      if sc == "chunkfirst" && h == "Put" then "=> refused st=internal" else "=> bad-op"
    | none, _ => "=> bad-op"
  | "ctl", some h, some sc => ctlVerdict Gen.controlHandlers h sc
  | "irctl", some h, some sc => ctlVerdict Gen.irControlHandlers h sc
  | _, _, _ => "=> bad-op"

end NeoFS.Driver
