import NeoFS.Base.Parse
import NeoFS.Gen.Handlers
import NeoFS.Model.CtlAuth
import NeoFS.Model.CtlConc
import NeoFS.Model.ReqAuth
import NeoFS.Model.GetRelay
/-!
Model side of engine `rpc` (C29, C45, C32): the expected refusal of a request is computed from the
REGENERATED skeleton of the handler. A scenario forces the outcome of some checks (all others pass, results of
package-local helpers are unconstrained); the request is expected to be refused iff no real effect is
reachable in the skeleton under that scenario.
-/
namespace NeoFS.Driver
open NeoFS.Handlers

/-- scenario name → forced check outcomes and the status class a refusal must carry -/
def objScenario : String → Option (List (Tag × Out) × String)
  | "ok" => some ([], "ok")
  | "eaclsoft" => some ([(.eacl, .soft)], "ok")
  | "sig" | "nosig" => some ([(.sig, .deny)], "signature")
  | "maint" => some ([(.maint, .deny)], "maintenance")
  | "token" => some ([(.token, .deny)], "token")
  | "tokenbad" => some ([(.token, .deny)], "badrequest")
  | "reqinfo" => some ([(.reqInfo, .deny)], "badrequest")
  | "reqinfocnr" => some ([(.reqInfo, .deny)], "container")
  | "basic" => some ([(.basic, .deny)], "denied")
  | "eacl" => some ([(.eacl, .deny)], "denied")
  | "sticky" => some ([(.sticky, .deny)], "denied")
  | "skip" => some ([(.reqInfo, .soft)], "ok")
  | "objsig" => some ([(.objSig, .deny)], "badrequest")
  | "cnrsrv" => some ([(.cnrSrv, .deny)], "internal")
  | "cnrcli" => some ([(.cnrCli, .deny)], "container")
  | _ => none

/-- Expected fate of a request: refused iff the scenario denies a check the handler consults and the skeleton
performs no real effect while that check stands denied. -/
def verdict (p : Prog) (forced : List (Tag × Out)) : Bool :=
  let denies := forced.filter (·.2 == .deny)
  if denies.isEmpty || denies.all (fun f => !mentions f.1 p) then !reachesEffect forced p
  else noEffectWhileDenied forced p

def findHandler (l : List (String × Prog)) (h : String) : Option Prog := (l.find? (·.1 == h)).map (·.2)

/-- Control services: the hand model of `isValidRequest` says whether the request is acceptable (keys 1 and 3
are the configured administrator keys); an unacceptable request is expected to be denied iff the regenerated
skeleton performs no effect while the signature verification stands denied. -/
def ctlVerdict (l : List (String × Prog)) (h sc : String) : String :=
  match findHandler l h, CtlAuth.reqOfKind sc with
  | some p, some r =>
    if CtlAuth.isValidRequest [1, 3] r == .ok then "=> passed"
    else if verdict p [(.ctlSig, .deny)] then "=> denied" else "=> passed"
  | _, _ => "=> bad-op"

/-! ### op `crace`: one control server, many requests in flight (Model/CtlConc.lean)

The requests of one method are threads of the concurrent model, run under the schedule the engine forces (all of
them marshal their signed data, then all of them verify); by `C32.concurrent_verdicts_are_sequential` any other
schedule gives the same verdicts (discipline `fresh`: `C32.auth_path_shares_nothing_mutable` shows from the
regenerated shared-state facts that it is the one the code follows). A request that is not acceptable is denied iff the regenerated skeleton of the
method performs no effect while the signature verification stands denied. -/

def rpcRaceKinds : List String := ["g1", "g2", "fo", "wk", "ns", "bs"]

def rpcRaceStep (o : OpLine) : String :=
  let r : Option String := do
    let hs ← match ← o.get? "svc" with
      | "ctl" => some Gen.controlHandlers
      | "irctl" => some Gen.irControlHandlers
      | _ => none
    let names := (← o.get? "ms").splitOn ","
    let progs ← names.mapM (findHandler hs)
    if names.eraseDups.length != names.length then none
    let sync ← o.nat? "sync"
    let n ← o.nat? "n"
    let counts ← rpcRaceKinds.mapM (fun k => o.nat? k)
    if sync > 1 || n < 1 || n > 5000 || counts.any (· > 16) || counts.sum == 0 then none
    let reqs ← (rpcRaceKinds.zip counts).mapM (fun kc => (CtlConc.raceReq kc.1).map (List.replicate kc.2))
    -- keys 1 and 3 are the two configured administrator keys
    let vs := CtlConc.barrierVerdicts .fresh [1, 3] reqs.flatten
    let okN := (vs.filter (· == some CtlAuth.Verdict.ok)).length
    let badN := vs.length - okN
    let deniedPerRound := (progs.map (fun p => if verdict p [(.ctlSig, .deny)] then badN else 0)).sum
    let total := progs.length * vs.length * n
    let denied := deniedPerRound * n
    some ("=> ok passed=" ++ toString (total - denied) ++ " denied=" ++ toString denied)
  r.getD "=> bad-op"

/-! ### op `auth`: who is the request authenticated as (Model/ReqAuth.lean) -/

/-- keys of the harness: the container owner, the usual client, a stranger -/
def rpcAuthKey? : String → Option String
  | "owner" => some "owner" | "client" => some "client" | "other" => some "other" | _ => none

def rpcAuthReq? (o : OpLine) : Option (ReqAuth.Req String) := do
  let tls ← match ← o.get? "tls" with
    | "none" => some none
    | k => (rpcAuthKey? k).map some
  let ttl ← match ← o.get? "ttl" with
    | "1" => some 1 | "2" => some 2 | _ => none
  let who ← match ← o.get? "who" with
    | "owner" => some "owner" | "client" => some "client" | _ => none
  let vh ← match ← o.get? "vh" with
    | "none" => some none
    | "ok" => some (some (who, true))
    | "bad" | "forged" => some (some (who, false))
    | _ => none
  if tls == some "client" then none
  else some { tls := tls, ttl := some ttl, vh := vh }

/-- The container of the `auth` ops is private and has no extended ACL: only its owner passes the basic ACL.
Whether the handler consults a stage at all is read from its regenerated skeleton. -/
def rpcAuthStep (o : OpLine) : String :=
  match (o.get? "h").bind (findHandler Gen.objectHandlers), rpcAuthReq? o with
  | some p, some r =>
    if o.get? "h" == some "Replicate" then "=> bad-op"
    else if !reachesEffect [] p then "=> refused st=stub"
    else match ReqAuth.authenticate r with
      | .badSignature => if verdict p [(.sig, .deny)] then "=> refused st=signature" else "=> served id=-"
      | .noAuthor => if verdict p [(.reqInfo, .deny)] then "=> refused st=badrequest" else "=> served id=-"
      | .identity k _ =>
        let role := if k == "owner" then "owner" else "others"
        let id := k ++ "/" ++ role
        if role == "owner" then "=> served id=" ++ id
        else if verdict p [(.basic, .deny)] then "=> refused st=denied id=" ++ id else "=> served id=" ++ id
  | _, _ => "=> bad-op"

/-! ### op `relay`: header-time eACL re-check of GET (Model/GetRelay.lean) -/

def rpcRelayStep (o : OpLine) : String :=
  let r : Option String := do
    let src ← o.get? "src"
    let po ← match ← o.get? "po" with | "0" => some false | "1" => some true | _ => none
    let req ← o.get? "req"
    let hdr ← match ← o.get? "class" with
      | "open" => some GetRelay.Verdict.pass | "secret" => some .deny | _ => none
    let chunks ← o.nat? "chunks"
    let ln ← o.nat? "len"
    let bad ← o.get? "bad"
    if chunks > 8 || ln < 1 || ln > 4096 then none
    if !(req == "pass" || req == "soft" || req == "deny") then none
    if !(bad == "none" || bad == "chunkfirst" || bad == "twohdr" || bad == "short") then none
    if src == "local" && bad != "none" then none
    if (bad == "chunkfirst" || bad == "short") && chunks == 0 then none
    let c : GetRelay.Cfg := { recheck := req == "soft", suppressInit := po, hdr := hdr, plen := chunks * ln }
    let showRes (t : List GetRelay.Ev) (res : GetRelay.Res) : String :=
      let s : GetRelay.St := { trace := t }
      let tail := " init=" ++ toString (GetRelay.sentInits s) ++ " bytes=" ++ toString (GetRelay.sentBytes s)
      match res with
      | .done => "=> served" ++ tail ++ " same=" ++ (if GetRelay.sentBytes s == c.plen then "1" else "0")
      | .denied => "=> refused st=denied" ++ tail
      | .notFound => "=> refused st=code2049" ++ tail
    if req == "deny" then some "=> refused st=denied init=0 bytes=0"
    else if src == "local" then
      let (t, res) := GetRelay.localGet c
      some (showRes t res)
    else if src == "remote" then
      let cs := List.replicate chunks (GetRelay.Msg.chunk ln)
      let msgs : List GetRelay.Msg := match bad with
        | "chunkfirst" => cs.take 1 ++ [.init] ++ cs.drop 1
        | "twohdr" => [.init, .init] ++ cs
        | "short" => [.init] ++ cs.drop 1
        | _ => [.init] ++ cs
      let (s, res) := GetRelay.run c {} [msgs]
      some (showRes s.trace res)
    else none
  r.getD "=> bad-op"

def rpcStep (o : OpLine) : String :=
  if o.name == "auth" then rpcAuthStep o
  else if o.name == "crace" then rpcRaceStep o
  else if o.name == "relay" then rpcRelayStep o
  else
  match o.name, o.get? "h", o.get? "sc" with
  | "obj", some h, some sc =>
    match findHandler Gen.objectHandlers h, objScenario sc with
    | some p, some (forced, cls) =>
      if sc == "chunkfirst" then "=> bad-op"
      else if !reachesEffect [] p then "=> refused st=stub"
      else if verdict p forced then "=> refused st=" ++ cls
      else "=> served"
    | some _, none =>
      -- a PUT stream that starts with a chunk: the handler hands the chunk to the Streamer (a `putCont` effect
      -- in the skeleton); the ASSUMPTION recorded in C29's policy is that the Streamer refuses it
      if sc == "chunkfirst" && h == "Put" then "=> refused st=internal" else "=> bad-op"
    | none, _ => "=> bad-op"
  | "ctl", some h, some sc => ctlVerdict Gen.controlHandlers h sc
  | "irctl", some h, some sc => ctlVerdict Gen.irControlHandlers h sc
  | _, _, _ => "=> bad-op"

end NeoFS.Driver
