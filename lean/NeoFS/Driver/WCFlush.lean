import NeoFS.Base.Parse
import NeoFS.Model.WCFlush
/-!
Driver of `Model/WCFlush.lean` for the engine `wcread`: one harness op = start an operation on a logical thread and/or
advance that thread by atomic model steps up to a named pause point (the `verifhook.Point` lines of the code) or its end.
-/
namespace NeoFS.Driver
open NeoFS.WCFlush

def wcrAddrs : List Nat := List.range 10

def wcrObs (s : St) : String :=
  "files=" ++ showNats (wcrAddrs.filter fun a => (s.files a).isSome) ++
  " ctr=" ++ showNats (wcrAddrs.filter fun a => s.ctr a) ++
  " main=" ++ showNats (wcrAddrs.filter fun a => (s.main a).isSome) ++
  " infl=" ++ showNats (wcrAddrs.filter fun a => s.inflight a)

/-- does the transition `old → new` of a thread pass the pause point `point`? -/
def atPoint (point : String) (old new : Pc) : Bool :=
  match point, old, new with
  | "flush.afterRead", .flRead [] _ _ _, .flPut _ _ => true
  | "flush.afterMainPut", .flPut _ _, .flDel _ _ _ => true
  | "flush.afterCacheDelete", .flCtr _ _ _ _, .flDel _ _ _ => true
  | "flush.afterCacheDelete", .flDel _ _ _, .flDel _ _ _ => true
  | "delete.afterFile", .flDel _ _ _, .flCtr _ _ _ _ => true
  | "delete.afterFile", .dlFile _, .dlCtr _ => true
  | "put.afterFile", .wrFile _ _, .wrCtr _ _ => true
  | "get.afterCounter", .rdCtr _ _, .rdFile _ _ => true
  | "get.afterCacheMiss", _, .rdMain _ _ => true
  | _, _, _ => false

def knownPoint (p : String) : Bool :=
  ["end", "flush.afterRead", "flush.afterMainPut", "flush.afterCacheDelete", "delete.afterFile", "put.afterFile",
   "get.afterCounter", "get.afterCacheMiss"].contains p

/-- a batch flusher removes its objects in Go map order: the pause points inside that loop are not used for batches -/
def isBatch : Pc → Bool
  | .flRead _ _ m _ => m.length != 1
  | .flPut _ m => m.length != 1
  | .flDel _ _ m => m.length != 1
  | .flCtr _ _ _ m => m.length != 1
  | _ => false

def runTo (point : String) (t : Tid) (ok : Bool) : Nat → St → List Obs → St × List Obs × Bool
  | 0, s, acc => (s, acc, false)
  | fuel + 1, s, acc =>
    let old := s.pc t
    if old = .idle then (s, acc, false)
    else
      let r := stepThread false s t ok 0
      let acc' := if r.2 = .none then acc else acc ++ [r.2]
      let new := r.1.pc t
      if new = .idle then (r.1, acc', false)
      else
        let inLoop := point == "flush.afterCacheDelete" || point == "delete.afterFile"
        if atPoint point old new && !(inLoop && isBatch new) then (r.1, acc', true)
        else runTo point t ok fuel r.1 acc'

def showObs : Obs → String
  | .none => ""
  | .readDone _ _ _ (some x) => s!" v={x}"
  | .readDone _ _ _ none => " notfound"
  | .putAck _ _ _ true => " ack"
  | .putAck _ _ _ false => " fail"
  | .flushDone _ false => " err=0"
  | .flushDone _ true => " err=1"
  | .delDone _ _ => " deleted"

def wcrAdvance (s : St) (t : Tid) (ok : Bool) (point : String) : St × String :=
  let (s', obs, parked) := runTo point t ok 4000 s []
  let res := String.join (obs.map showObs)
  (s', "=> " ++ (if parked then "parked" else "done") ++ res ++ " " ++ wcrObs s')

def wcrStart (s : St) (o : OpLine) (t : Tid) (e : Ev) : St × String :=
  if s.pc t != .idle then (s, "=> busy " ++ wcrObs s)
  else
    let point := (o.get? "park").getD "end"
    if !knownPoint point then (s, "=> bad-op")
    else wcrAdvance (step false s e).1 t (o.get? "ok" != some "0") point

def wcreadStep (s : St) (o : OpLine) : St × String :=
  match o.name, o.nat? "t" with
  | "put", some t =>
    match o.nat? "a", o.get? "via" with
    | some a, some "cache" => wcrStart s o t (.write t a a true)
    | some a, some "main" => wcrStart s o t (.write t a a false)
    | _, _ => (s, "=> bad-op")
  | "flush", some t =>
    match o.nats? "as" with
    | some (a :: as) => wcrStart s o t (.flush t (a :: as) true)
    | _ => (s, "=> bad-op")
  | "get", some t =>
    match o.nat? "a", o.get? "kind" with
    | some a, some k =>
      if ["get", "getm", "bytes", "head", "range"].contains k then wcrStart s o t (.read t a true) else (s, "=> bad-op")
    | _, _ => (s, "=> bad-op")
  | "del", some t =>
    match o.nat? "a" with
    | some a => wcrStart s o t (.delete t a)
    | none => (s, "=> bad-op")
  | "release", some t =>
    let point := (o.get? "park").getD "end"
    if !knownPoint point then (s, "=> bad-op")
    else if s.pc t == .idle then (s, "=> idle " ++ wcrObs s)
    else wcrAdvance s t (o.get? "ok" != some "0") point
  | _, _ => (s, "=> bad-op")

end NeoFS.Driver
