import NeoFS.Base.Parse
import NeoFS.Model.Validate
import NeoFS.Model.Range
namespace NeoFS.Driver
open NeoFS.Validate

def validateShowErr : Err → String
  | .size => "size" | .max => "max" | .quota => "quota" | .down => "down" | .checksum => "checksum" | .format => "format"

/-- cut a byte list into chunks of the given lengths -/
def cutChunks : List Nat → List Nat → List (List Nat)
  | [], _ => []
  | n :: ns, l => l.take n :: cutChunks ns (l.drop n)

/-- the header of corruption kind `k` (the table of the engine's `valObject`) -/
def hdrOfKind (kind size : Nat) : Hdr (List Nat) :=
  let intended := Range.detPayload size 3
  { size := size,
    csum := if kind = 5 || kind = 14 then none else if kind = 4 then some (intended ++ [1]) else some intended,
    versionOk := kind != 17, cidSet := kind != 9, ownerSet := kind != 16, cnrKnown := kind != 11,
    attrsOk := !(kind = 6 || kind = 7 || kind = 8), expOk := !(kind = 12 || kind = 13),
    idSet := kind != 15, idMatches := !(kind = 1 || kind = 18), sigOk := !(kind = 2 || kind = 10), ownerIsSigner := kind != 3 }

def validateStep (o : OpLine) : String :=
  match o.name with
  | "stream" =>
    match o.nat? "kind", o.nat? "size", o.nats? "chunks", o.nat? "unprep", o.nat? "fail", o.nat? "quota", o.nat? "max" with
    | some kind, some size, some chunks, some unprep, some fail, some quota, some mx =>
      if kind ≥ 19 then "=> bad-op" else
      let total := chunks.foldl (· + ·) 0
      let c : Cfg := { unprep := unprep == 1, maxSz := mx, quota := if quota = 0 then none else some quota, rep := 1 }
      match stream c id (hdrOfKind kind size) fail (cutChunks chunks (Range.detPayload total 3)) with
      | .ok s => s!"=> ok down={s.down.length} fnv={Range.fnv32a s.down}"
      | .error (k, e) =>
        if k = 0 then "=> hdr:" ++ validateShowErr e
        else if k = chunks.length + 1 then "=> close:" ++ validateShowErr e
        else s!"=> w{k}:{validateShowErr e}"
    | _, _, _, _, _, _, _ => "=> bad-op"
  | _ => "=> bad-op"

end NeoFS.Driver
