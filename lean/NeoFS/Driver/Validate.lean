import NeoFS.Base.Parse
import NeoFS.Model.Validate
import NeoFS.Model.Range
namespace NeoFS.Driver
open NeoFS.Validate

def validateShowErr : Err → String
  | .size => "size" | .max => "max" | .quota => "quota" | .down => "down" | .checksum => "checksum" | .format => "format"

/-- cut a byte list into chunks of the given lengths -/
def cutChunks : List Nat → List Nat → List (List Nat)
  | [], _ => []
  | n :: ns, l => l.take n :: cutChunks ns (l.drop n)

/-- the header of corruption kind `k` (the table of the engine's `valObject`) -/
def hdrOfKind (kind size : Nat) : Hdr (List Nat) :=
  let intended := Range.detPayload size 3
  { size := size,
    csum := if kind = 5 || kind = 14 then none else if kind = 4 then some (intended ++ [1]) else some intended,
    versionOk := kind != 17, cidSet := kind != 9, ownerSet := kind != 16, cnrKnown := kind != 11,
    attrsOk := !(kind = 6 || kind = 7 || kind = 8), expOk := !(kind = 12 || kind = 13),
    idSet := kind != 15, idMatches := !(kind = 1 || kind = 18), sigOk := !(kind = 2 || kind = 10), ownerIsSigner := kind != 3 }

def validateShowAuth : Option AuthErr → String
  | none => "ok" | some .sessionKey => "sessionKey" | some .sessionToken => "sessionToken"
  | some .sessionOwner => "sessionOwner" | some .signature => "signature" | some .owner => "owner"

/-- the session tokens of the engine (`valTokens`): users 1 Alice, 2 Bob, 3 the gateway key -/
def validateTokTable : Nat → Tok
  | 1 => { issuer := 1, subject := 3, sigValid := true }
  | 2 => { issuer := 2, subject := 3, sigValid := true }
  | 3 => { issuer := 1, subject := 3, sigValid := true }
  | 4 => { issuer := 2, subject := 3, sigValid := true }
  | 5 => { issuer := 1, subject := 3, sigValid := false }
  | 6 => { issuer := 1, subject := 3, sigValid := false }
  | 8 => { issuer := 1, subject := 2, sigValid := false }  -- forged: the signature of token 1 on another body
  | 9 => { issuer := 1, subject := 2, sigValid := false }  -- forged: the signature of token 3 on another body
  | _ => { issuer := 1, subject := 2, sigValid := true }

/-- object code `sigBad*1000 + token*100 + owner*10 + signer` -/
def validateAuthObj (code : Nat) : Option AObj :=
  let sigBad := code / 1000
  let tok := code / 100 % 10
  let owner := code / 10 % 10
  let signer := code % 10
  if sigBad > 1 || tok > 9 || owner < 1 || owner > 3 || signer < 1 || signer > 3 then none
  else some { owner := owner, signer := signer, sigOk := sigBad == 0, tok := if tok = 0 then none else some tok }

/-- content verdict of the engine's object table (`valContentOK`): `none` = not in the table -/
def validateContentOk (typ kind : Nat) : Option Bool :=
  match typ with
  | 0 => if kind = 0 then some true else none
  | 1 => if kind ≤ 10 then some (kind = 0 || kind = 7 || kind = 8 || kind = 9) else none
  | 2 => if kind = 0 || kind = 10 then some (kind = 0) else none
  | 3 => if kind ≤ 4 then some (kind = 0) else none
  | _ => none

def validateShowEErr : EErr → String
  | .policy => "policy" | .format => "format" | .content => "content" | .fail => "fail"

def validateStep (o : OpLine) : String :=
  match o.name with
  | "authseq" =>
    match o.nat? "cap", o.nats? "objs" with
    | some cap, some codes =>
      if cap < 1 || cap > 64 then "=> bad-op" else
      let objs := codes.map validateAuthObj
      if objs.any Option.isNone then "=> bad-op" else
      let vs := authSeq validateTokTable cap [] (objs.filterMap id)
      "=> v=" ++ ",".intercalate (vs.map validateShowAuth)
    | _, _ => "=> bad-op"
  | "entry" =>
    match o.nat? "via", o.nat? "typ", o.nat? "kind", o.nat? "hdr", o.nat? "sealed" with
    | some via, some typ, some kind, some hdr, some sealed =>
      match validateContentOk typ kind with
      | none => "=> bad-op"
      | some contentOk =>
        if via > 4 || hdr > 1 || sealed > 1 || ((via = 4 || typ = 3) && sealed = 0) || (sealed = 0 && hdr ≠ 0) then "=> bad-op" else
        let route : Route := match via with | 0 => .put | 1 => .putLocal | 2 => .relay | 3 => .relayLocal | _ => .replicate
        let t : OType := match typ with | 0 => .regular | 1 => .tombstone | 2 => .lock | _ => .link
        -- a tombstone / lock that arrives with its payload inside (Replicate) is already refused by the header check
        let hdrOk := hdr = 0 && !(via = 4 && kind = 10)
        let r := cluster route (sealed = 0) { typ := t, hdrOk := hdrOk, contentOk := contentOk }
        let v := match r.1 with | .ok _ => "ok" | .error e => validateShowEErr e
        s!"=> {v} stored={showNats r.2}"
    | _, _, _, _, _ => "=> bad-op"
  | "stream" =>
    match o.nat? "kind", o.nat? "size", o.nats? "chunks", o.nat? "unprep", o.nat? "fail", o.nat? "quota", o.nat? "max" with
    | some kind, some size, some chunks, some unprep, some fail, some quota, some mx =>
      if kind ≥ 19 then "=> bad-op" else
      let total := chunks.foldl (· + ·) 0
      let c : Cfg := { unprep := unprep == 1, maxSz := mx, quota := if quota = 0 then none else some quota, rep := 1 }
      match stream c id (hdrOfKind kind size) fail (cutChunks chunks (Range.detPayload total 3)) with
      | .ok s => s!"=> ok down={s.down.length} fnv={Range.fnv32a s.down}"
      | .error (k, e) =>
        if k = 0 then "=> hdr:" ++ validateShowErr e
        else if k = chunks.length + 1 then "=> close:" ++ validateShowErr e
        else s!"=> w{k}:{validateShowErr e}"
    | _, _, _, _, _, _, _ => "=> bad-op"
  | _ => "=> bad-op"

end NeoFS.Driver
