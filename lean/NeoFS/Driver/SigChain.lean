import NeoFS.Base.Parse
import NeoFS.Model.SigChain
/-!
Line-protocol driver of Model/SigChain.lean.

`sigchain verify … api=plain|ctx|n3 trusted=0|1 B=<id> M=<meta layers> V=<verification layers>`

Messages are small ids (the harness hash-conses the marshalled bytes per request; id 0 = the empty byte
string, i.e. the encoding of a nil header). `M`: `-` (nil) or comma list of `hasVersion.major.minor.ttl.id`,
`id` = id of the encoding of that meta header WITH its origins. `V`: `-` or comma list of `id/MS/OS/BS`,
`id` = id of the encoding of that verification header with its origins, each signature `n` (nil) or
`scheme.keyclass.signed.keyid` with keyclass `e` (empty) / `b` (not decodable) / `k` (decodable), `signed` = the
id of the one message this (key, scheme, signature) value is a signature of, `x` if of none, and `keyid` a small
number naming the key bytes (0 = empty). The observation ends with what `GetRequestAuthor` answers for the
verification header: `a=<keyid>` or the failure. The model's
`verify` is this table: a signature verifies over a message iff it is a signature of that message.
The other keys of the line (the recipe the harness rebuilt the real request from) are ignored here.
-/
namespace NeoFS.Driver
open NeoFS.SigChain

def scEnc : Enc where
  encM := fun ms => match ms with | [] => [0] | m :: _ => m.rest
  encV := fun vs => match vs with | [] => [0] | v :: _ => v.tag

def scScheme : Scheme where
  supported := fun sc => sc == 0 || sc == 1 || sc == 2
  decodable := fun _ k => k.head? == some 1
  verify := fun _ _ msg sig => sig == msg
  n3 := fun msg invoc _ => invoc == msg

/-- `scheme.keyclass.signed.keyid`: key bytes of the model are `[]` (empty), `[0, keyid]` (not decodable as an ECDSA
key: garbage or an N3 verification script) or `[1, keyid]` (decodable) -/
def parseSig (s : String) : Option (Option Sig) :=
  if s == "n" then some none
  else match s.splitOn "." with
    | [sc, kc, sg, kid] =>
      match sc.toInt?, kid.toNat?, (if sg == "x" then some [] else sg.toNat?.map fun n => [n]) with
      | some sc, some kid, some sign =>
        let key : Option Bytes :=
          if kc == "e" then (if kid == 0 then some [] else none)
          else if kc == "b" then some [0, kid] else if kc == "k" then some [1, kid] else none
        key.map fun key => some { key := key, sign := sign, scheme := sc }
      | _, _, _ => none
    | _ => none

def parseVLayer (s : String) : Option VLayer :=
  match s.splitOn "/" with
  | [id, a, b, c] =>
    match id.toNat?, parseSig a, parseSig b, parseSig c with
    | some id, some a, some b, some c => some { metaSig := a, originSig := b, bodySig := c, tag := [id] }
    | _, _, _, _ => none
  | _ => none

def parseMLayer (s : String) : Option MLayer :=
  match (s.splitOn ".").mapM String.toNat? with
  | some [hv, mj, mn, ttl, id] =>
    if hv ≤ 1 then some { hasVersion := hv == 1, major := mj, minor := mn, ttl := ttl, rest := [id] } else none
  | _ => none

def parseList {α : Type} (f : String → Option α) (s : String) : Option (List α) :=
  if s == "-" then some [] else (s.splitOn ",").mapM f

def sigErrName : SigErr → String
  | .ok => "ok" | .missingKey => "missing-key" | .negScheme => "neg-scheme" | .unsupported => "unsupported"
  | .badKey => "bad-key" | .mismatch => "mismatch" | .n3fail => "n3fail"

def causeName : Cause → String
  | .missingMetaSig => "missing-meta" | .invalidMetaSig e => "invalid-meta:" ++ sigErrName e
  | .missingOriginSig => "missing-origin" | .invalidOriginSig e => "invalid-origin:" ++ sigErrName e
  | .missingBodySig => "missing-body" | .invalidBodySig e => "invalid-body:" ++ sigErrName e
  | .nonOriginBodySig => "non-origin-body"

def resName : Res → String
  | .ok => "=> ok" | .missingVerifyHdr => "=> missing-vh" | .wrongVerifyHdrNum => "=> wrong-num"
  | .layer d c => s!"=> layer d={d} {causeName c}" | .nilDeref => "=> nil-deref"

def scAuthorName : Author → String
  | .noHeader => "no-vh" | .noBodySig => "no-body-sig" | .badScheme => "bad-scheme" | .nilKey => "panic"
  | .key s => match s.key with
    | [_, kid] => toString kid
    | [] => "0"
    | _ => "?"

def repStatusName : RepStatus → String
  | .ok => "ok" | .badObjMissing => "bad-obj-missing" | .badIdMissing => "bad-id-missing"
  | .badSigMissing => "bad-sig-missing" | .badKeyMissing => "bad-key-missing" | .badSignMissing => "bad-sign-missing"
  | .badScheme => "bad-scheme" | .badHdrMissing => "bad-hdr-missing" | .badCnrMissing => "bad-cnr-missing"
  | .badCnrInvalid => "bad-cnr-invalid" | .badKeyInvalid => "bad-key-invalid" | .badSigMismatch => "bad-sig-mismatch"
  | .cnrNotFound => "cnr-not-found" | .internalPolicy => "internal-policy" | .deniedServer => "denied-server"
  | .deniedClient => "denied-client" | .badObject => "bad-object" | .busy => "busy"
  | .internalStore => "internal-store" | .internalSign => "internal-sign"

/-- status class as the wire code: common failure 1024/1025, object access denied 2048, container not
found 3072, bad request 1028, busy 1029 -/
def repStatusCode : RepStatus → Nat
  | .ok => 0
  | .cnrNotFound => 3072
  | .deniedServer | .deniedClient => 2048
  | .internalPolicy | .internalStore | .internalSign => 1024
  | .busy => 1029
  | _ => 1028

def flag? (o : OpLine) (k : String) : Option Bool :=
  match o.get? k with
  | some "0" => some false | some "1" => some true | _ => none

def parseSel (s : String) : Option (Option Sel) :=
  if s == "x" then some none
  else if s == "err" then some (some .policyErr)
  else if s == "-" then none
  else (parseNats s).map fun l => some (.nodes l)

def parseRep (o : OpLine) : Option (RepEnv × RepReq) := do
  let obj ← flag? o "obj"
  let id ← flag? o "id"
  let sg ← flag? o "sig"
  let hdr ← flag? o "hdr"
  let objdec ← flag? o "objdec"
  let signobj ← flag? o "signobj"
  let cnrfound ← flag? o "cnrfound"
  let epochfails ← flag? o "epochfails"
  let signfails ← flag? o "signfails"
  let keyc ← o.get? "keyc"
  let sign ← o.get? "sign"
  let cnr ← o.get? "cnr"
  let scheme ← o.int? "scheme"
  let key ← o.nat? "key"
  let epoch ← o.nat? "epoch"
  let cur ← (o.get? "cur").bind parseSel
  let prev ← (o.get? "prev").bind parseSel
  let own ← o.nats? "own"
  let store ← match o.get? "store" with
    | some "ok" => some StoreRes.ok | some "busy" => some .busy | some "fail" => some .fail | _ => none
  if !(keyc == "k" || keyc == "e" || keyc == "b") then none
  if !(sign == "v" || sign == "i" || sign == "e") then none
  if !(cnr == "ok" || cnr == "nil" || cnr == "bad") then none
  pure ({ epochFails := epochfails, cnrFound := cnrfound, epoch := epoch, cur := cur, prev := prev, own := own,
          store := store, signFails := signfails },
        { objPresent := obj, idPresent := id, sigPresent := sg, keyEmpty := keyc == "e", signEmpty := sign == "e",
          scheme := scheme, hdrPresent := hdr, cnrPresent := cnr != "nil", cnrValid := cnr == "ok",
          keyDecodes := keyc == "k", sigValid := sign == "v" && keyc == "k", key := key, objDecodes := objdec,
          signObject := signobj })

def sigchainStep (o : OpLine) : String :=
  match o.name with
  | "replicate" =>
    match parseRep o with
    | some (env, r) =>
      let out := replicate env r
      s!"=> {repStatusName out.status} code={repStatusCode out.status} stored={if out.storeCalled then 1 else 0} sig={if out.signed then 1 else 0}"
    | none => "=> bad-op"
  | "verify" =>
    let api : Option Api := match o.get? "api" with
      | some "plain" => some .plain | some "ctx" => some .ctx | some "n3" => some .n3 | _ => none
    let trusted : Option Bool := match o.get? "trusted" with
      | some "0" => some false | some "1" => some true | _ => none
    match api, trusted, o.nat? "B", (o.get? "M").bind (parseList parseMLayer), (o.get? "V").bind (parseList parseVLayer) with
    | some api, some tr, some b, some ms, some vs =>
      resName (entry scScheme scEnc api tr { body := [b], metas := ms, vs := vs }) ++ " a=" ++ scAuthorName (requestAuthor scScheme vs)
    | _, _, _, _, _ => "=> bad-op"
  | _ => "=> bad-op"

end NeoFS.Driver
