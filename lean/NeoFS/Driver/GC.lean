import NeoFS.Driver.Meta
import NeoFS.Model.GC
namespace NeoFS.Driver
open NeoFS.Meta NeoFS.GC

structure GCState where
  st : GC.St := {}
  batch : Nat := 1

def gcDump (s : GC.St) : String :=
  let j (xs : List String) : String := if xs.isEmpty then "-" else String.intercalate "," xs
  let recs := s.db.flatMap fun b => b.2.recs.map fun r => s!"{b.1}/{r.id}{if r.phy then "" else "v"}"
  let garb := s.db.flatMap fun b => b.2.garb.map fun g => s!"{b.1}/{g.1}"
  let dead := (s.db.filter fun b => b.2.gcMark).map fun b => toString b.1
  let cnrs := s.db.map fun b => toString b.1
  s!"idx={j recs} garb={j garb} dead={j dead} cnrs={j cnrs} blobs={j (s.blobs.map fun a => s!"{a.1}/{a.2}")}"

def gcStep (g : GCState) (o : OpLine) : GCState × String :=
  match o.name with
  | "init" =>
    match o.nat? "batch" with
    | some b => ({ st := {}, batch := b }, "=> ok")
    | none => (g, "=> bad-op")
  | "gc" =>
    let s' := gcPass g.batch g.st
    ({ g with st := s' }, "=> ok " ++ gcDump s')
  | "epoch" =>
    match o.nat? "e" with
    | some e => let s' := { g.st with epoch := e }; ({ g with st := s' }, "=> ok " ++ gcDump s')
    | none => (g, "=> bad-op")
  | "put" | "mark" | "inhumecnr" =>
    let m : MetaState := { db := g.st.db, epoch := g.st.epoch }
    let (m', res) := metaApply m o
    let c := (o.nat? "c").getD 0
    let id := (o.nat? "o").getD 0
    -- Shard.Put writes the blob first and drops it again when the metabase refuses the object
    let blobs := if o.name == "put" then
        (if res == "=> K" then insertAddr (c, id) g.st.blobs else g.st.blobs.filter (· != (c, id)))
      else g.st.blobs
    let s' := { g.st with db := m'.db, blobs := blobs }
    ({ g with st := s' }, res ++ " " ++ gcDump s')
  | _ => (g, "=> bad-op")

end NeoFS.Driver
