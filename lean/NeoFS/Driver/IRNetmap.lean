import NeoFS.Base.Parse
import NeoFS.Model.IRNetmap
namespace NeoFS.Driver
open NeoFS.IRNetmap

namespace IRN

def flag? (o : OpLine) (k : String) : Option Bool :=
  match o.get? k with
  | some "1" => some true
  | some "0" => some false
  | _ => none

def bits? (o : OpLine) (k : String) : Option (List Bool) :=
  (o.nats? k).bind fun l => l.mapM fun x => if x == 1 then some true else if x == 0 then some false else none

def state? (n : Nat) : Option NodeState :=
  match n with
  | 0 => some .unspecified | 1 => some .online | 2 => some .offline | 3 => some .maintenance | _ => none

def v? (n : Nat) : Option V :=
  match n with
  | 0 => some .state | 1 => some .structure | 2 => some .availability | 3 => some .privateDomains
  | 4 => some .locode | 5 => some .external | _ => none

def node? (o : OpLine) : Option Node := do
  let st ← (o.nat? "st").bind state?
  let addrs ← bits? o "addrs"
  let attrs ← (o.get? "attrs").map fun s => if s == "-" then [] else s.splitOn ","
  let reach ← flag? o "reach"
  let dom ← flag? o "dom"
  let key ← flag? o "key"
  let nns ← o.nat? "nns"
  let lc ← flag? o "lc"
  let lck ← flag? o "lck"
  let lcf ← bits? o "lcf"
  let ext ← flag? o "ext"
  some { state := st, addrsOk := addrs, attrKeys := attrs, reachable := reach, hasDomain := dom, keyPresent := key,
         nnsAnswer := nns, hasLocode := lc, locodeKnown := lck, locodeFields := lcf, externalOk := ext }

def vs? (o : OpLine) : Option (List V) := (o.nats? "vs").bind fun l => l.mapM v?

def b2s (b : Bool) : String := if b then "1" else "0"

end IRN

def irnStep (s : St) (o : OpLine) : St × String :=
  match o.name with
  | "validate" =>
    match IRN.node? o, IRN.vs? o with
    | some n, some vs =>
      match firstError n vs 0 with
      | none => (s, s!"=> ok calls={calledCount n vs}")
      | some i => (s, s!"=> err by={i} calls={calledCount n vs}")
    | _, _ => (s, "=> bad-op")
  | "addnode" =>
    match IRN.node? o, IRN.vs? o, IRN.flag? o "alpha", IRN.flag? o "halts" with
    | some n, some vs, some al, some halts =>
      let conv := n.state == .online || n.state == .maintenance
      match processAddNode al halts conv vs n with
      | .ignored => (s, "=> notary=0 script=0 calls=0 by=-")
      | .badScript => (s, "=> notary=0 script=1 calls=0 by=-")
      | .badNode => (s, "=> notary=0 script=1 calls=0 by=-")
      | .rejected i => (s, s!"=> notary=0 script=1 calls={calledCount n vs} by={i}")
      | .approved => (s, s!"=> notary=1 script=1 calls={calledCount n vs} by=-")
    | _, _, _, _ => (s, "=> bad-op")
  | "updpeer" =>
    match IRN.flag? o "alpha" with
    | some al => (s, if processUpdatePeer al == .approved then "=> notary=1" else "=> notary=0")
    | none => (s, "=> bad-op")
  | "init" =>
    match o.nat? "counter", IRN.flag? o "alpha" with
    | some c, some al => let s' : St := ⟨c, al, 0⟩; (s', s!"=> req=- counter={c} resets=0")
    | _, _ => (s, "=> bad-op")
  | "tick" =>
    let (s', out) := step s .tick
    (s', s!"=> req={showNats out} counter={s'.counter} resets={s'.timerResets}")
  | "newepoch" =>
    match o.nat? "e" with
    | some e => let (s', out) := step s (.newEpoch e); (s', s!"=> req={showNats out} counter={s'.counter} resets={s'.timerResets}")
    | none => (s, "=> bad-op")
  | "alpha" =>
    match IRN.flag? o "b" with
    | some b => let (s', out) := step s (.setAlphabet b); (s', s!"=> req={showNats out} counter={s'.counter} resets={s'.timerResets}")
    | none => (s, "=> bad-op")
  | _ => (s, "=> bad-op")

end NeoFS.Driver
