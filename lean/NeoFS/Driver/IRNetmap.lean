import NeoFS.Base.Parse
import NeoFS.Model.IRNetmap
namespace NeoFS.Driver
open NeoFS.IRNetmap

namespace IRN

def flag? (o : OpLine) (k : String) : Option Bool :=
  match o.get? k with
  | some "1" => some true
  | some "0" => some false
  | _ => none

def bits? (o : OpLine) (k : String) : Option (List Bool) :=
  (o.nats? k).bind fun l => l.mapM fun x => if x == 1 then some true else if x == 0 then some false else none

def state? (n : Nat) : Option NodeState :=
  match n with
  | 0 => some .unspecified | 1 => some .online | 2 => some .offline | 3 => some .maintenance | _ => none

def v? (n : Nat) : Option V :=
  match n with
  | 0 => some .state | 1 => some .structure | 2 => some .availability | 3 => some .privateDomains
  | 4 => some .locode | 5 => some .external | _ => none

def node? (o : OpLine) : Option Node := do
  let st ← (o.nat? "st").bind state?
  let addrs ← bits? o "addrs"
  let attrs ← (o.get? "attrs").map fun s => if s == "-" then [] else s.splitOn ","
  let reach ← flag? o "reach"
  let dom ← flag? o "dom"
  let key ← flag? o "key"
  let nns ← o.nat? "nns"
  let lc ← flag? o "lc"
  let lck ← flag? o "lck"
  let lcf ← bits? o "lcf"
  let ext ← flag? o "ext"
  some { state := st, addrsOk := addrs, attrKeys := attrs, reachable := reach, hasDomain := dom, keyPresent := key,
         nnsAnswer := nns, hasLocode := lc, locodeKnown := lck, locodeFields := lcf, externalOk := ext }

def vs? (o : OpLine) : Option (List V) := (o.nats? "vs").bind fun l => l.mapM v?

def b2s (b : Bool) : String := if b then "1" else "0"

/-- a candidate of a history op: attribute keys without repetition (a contract map), six locode field bits -/
def cand? (o : OpLine) : Option Cand := do
  let k ← o.nat? "k"
  let st ← (o.nat? "st").bind state?
  let addrs ← bits? o "addrs"
  let attrs ← (o.get? "attrs").map fun s => if s == "-" then [] else s.splitOn ","
  let av ← o.nat? "av"
  let dom ← o.nat? "dom"
  let lc ← flag? o "lc"
  let lck ← flag? o "lck"
  let lcf ← bits? o "lcf"
  if !nodup attrs || lcf.length != 6 || dom > 2 || k == 0 || k > 5 then none
  else some { key := k, state := st, addrsOk := addrs, attrKeys := attrs, attrVal := av, domain := dom,
              hasLocode := lc, locodeKnown := lck, locodeFields := lcf }

def epochObs (s : St) (out : List Nat) : String :=
  s!"=> req={showNats out} counter={s.counter} resets={s.timerResets}"

def admissionObs (n : Node) (vs : List V) : Outcome → String
  | .ignored => "=> notary=0 script=0 calls=0 by=-"
  | .badScript => "=> notary=0 script=1 calls=0 by=-"
  | .badNode => "=> notary=0 script=1 calls=0 by=-"
  | .rejected i => s!"=> notary=0 script=1 calls={calledCount n vs} by={i}"
  | .approved => s!"=> notary=1 script=1 calls={calledCount n vs} by=-"

def hist (s : HSt) (o : OpLine) : Option (HSt × String) :=
  match o.name with
  | "hinit" => do
    let vs ← vs? o
    let al ← flag? o "alpha"
    let c ← o.nat? "counter"
    let s' : HSt := { ep := ⟨c, al, 0⟩, vs := vs }
    some (s', epochObs s'.ep [])
  | "hnns" => do
    let recs ← o.nats? "recs"
    let down ← flag? o "down"
    some ((hstep s (.setNns (recs.map fun r => (r / 10, r % 10)) down)).1, "=> ok")
  | "hserve" => do
    let k ← o.nat? "k"
    let up ← flag? o "up"
    if up then
      let c ← cand? o
      if c.key != k then none else some ((hstep s (.serve k (some c))).1, "=> ok")
    else some ((hstep s (.serve k none)).1, "=> ok")
  | "hext" => do
    let deny ← o.nats? "deny"
    some ((hstep s (.setExt deny)).1, "=> ok")
  | "hchain" => do
    let keys ← o.nats? "keys"
    let down ← flag? o "down"
    some ((hstep s (.setChain keys down)).1, "=> ok")
  | "hadd" => do
    let halts ← flag? o "halts"
    let c ← cand? o
    match hstep s (.addNode halts c) with
    | (s', .admission out _) => some (s', admissionObs (view s.w c) s.vs out)
    | _ => none
  | "hupd" =>
    match hstep s .updPeer with
    | (s', .peer out) => some (s', if out == .approved then "=> notary=1" else "=> notary=0")
    | _ => none
  | "htick" =>
    let (s', out) := hstep s .tick
    some (s', epochObs s'.ep out.reqs)
  | "halpha" => do
    let b ← flag? o "b"
    let (s', out) := hstep s (.setAlphabet b)
    some (s', epochObs s'.ep out.reqs)
  | "hepoch" => do
    let e ← o.nat? "e"
    match hstep s (.newEpoch e) with
    | (s', .epoch pl h) =>
      some (s', epochObs s'.ep [] ++ s!" placement={b2s pl} sync={b2s h} deposit={b2s h} map={showNats s'.curMap}")
    | _ => none
  | _ => none

end IRN

/-- legacy epoch ops (`init`, `tick`, `newepoch`, `alpha`) work on the epoch part of the history state -/
def irnEpochStep (s : St) (o : OpLine) : St × String :=
  match o.name with
  | "init" =>
    match o.nat? "counter", IRN.flag? o "alpha" with
    | some c, some al => let s' : St := ⟨c, al, 0⟩; (s', s!"=> req=- counter={c} resets=0")
    | _, _ => (s, "=> bad-op")
  | "tick" =>
    let (s', out) := step s .tick
    (s', s!"=> req={showNats out} counter={s'.counter} resets={s'.timerResets}")
  | "newepoch" =>
    match o.nat? "e" with
    | some e => let (s', out) := step s (.newEpoch e); (s', s!"=> req={showNats out} counter={s'.counter} resets={s'.timerResets}")
    | none => (s, "=> bad-op")
  | "alpha" =>
    match IRN.flag? o "b" with
    | some b => let (s', out) := step s (.setAlphabet b); (s', s!"=> req={showNats out} counter={s'.counter} resets={s'.timerResets}")
    | none => (s, "=> bad-op")
  | _ => (s, "=> bad-op")

def irnStep (s : HSt) (o : OpLine) : HSt × String :=
  match o.name with
  | "validate" =>
    match IRN.node? o, IRN.vs? o with
    | some n, some vs =>
      match firstError n vs 0 with
      | none => (s, s!"=> ok calls={calledCount n vs}")
      | some i => (s, s!"=> err by={i} calls={calledCount n vs}")
    | _, _ => (s, "=> bad-op")
  | "addnode" =>
    match IRN.node? o, IRN.vs? o, IRN.flag? o "alpha", IRN.flag? o "halts" with
    | some n, some vs, some al, some halts =>
      let conv := n.state == .online || n.state == .maintenance
      (s, IRN.admissionObs n vs (processAddNode al halts conv vs n))
    | _, _, _, _ => (s, "=> bad-op")
  | "updpeer" =>
    match IRN.flag? o "alpha" with
    | some al => (s, if processUpdatePeer al == .approved then "=> notary=1" else "=> notary=0")
    | none => (s, "=> bad-op")
  | "init" | "tick" | "newepoch" | "alpha" =>
    let (e, out) := irnEpochStep s.ep o
    ({ s with ep := e }, out)
  | _ =>
    match IRN.hist s o with
    | some r => r
    | none => (s, "=> bad-op")

end NeoFS.Driver
