import NeoFS.Base.Parse
import NeoFS.Model.Migrate
import NeoFS.Driver.Meta
/-
Driver of engine `migrate` (property C42).  The history lines are the ones of engine `meta` (applied to the model
of the metabase, `Model/Meta.lean`) with object ids written as small numbers and stored as `2^255 + n`.
`open` / `crash` lines build the OLD-format database from the model state (the old writer: what
`PutMetadataForObject` wrote before format 11), run `Migrate.migrate` / `Migrate.crashAfter` and print the raw
content before / in the middle / after, the counters and the read views.
-/
namespace NeoFS.Driver.Mig
open NeoFS.Meta NeoFS.Migrate
open NeoFS.Search (Bytes str aHomo aAssoc oidBytes b58Encode)

def off : Nat := 2 ^ 255
def enc (n : Nat) : Nat := if n == 0 then 0 else off + n
def dec (n : Nat) : Nat := if n ≥ off then n - off else n

structure Extra where
  homo : Option Bytes := none
  attrs : List (Bytes × Bytes) := []

structure St where
  db : Meta.DB := []
  epoch : Nat := 0
  extras : List ((Nat × Nat) × Extra) := []

def encHdr (h : Hdr) : Hdr :=
  { h with id := enc h.id, parentId := enc h.parentId, firstId := enc h.firstId, assoc := enc h.assoc }

/-! ### the writer -/

structure Consts where
  ver : Bytes
  own : Bytes
  cs : Bytes

def typeStr : OType → Bytes
  | .regular => str "REGULAR" | .tombstone => str "TOMBSTONE" | .lock => str "LOCK" | .link => str "LINK"
  | .storageGroup => str "STORAGE_GROUP"

def splitBytes (n : Nat) : Bytes := 17 :: (List.replicate 14 0 ++ [n % 256])

/-- `putPlainAttribute` / `putIntAttribute` -/
def pairKeys (id : Nat) (a v : Bytes) : List Key :=
  (if Search.intIndexed a v then
    match Search.parseInt v with
    | some z => [Key.int id a (Int256.encode z)]
    | none => []
   else []) ++ [.plain id a v, .idAttr id a v]

def decStr (n : Nat) : Bytes := str (toString n)

/-- the keys of one indexed object; `old`: format 9/10 (associate value as Base58 string, homomorphic hash indexed) -/
def recKeys (old : Bool) (k : Consts) (r : Rec) (x : Extra) : List Key :=
  let id := r.id
  [Key.oid id]
  ++ pairKeys id Search.aVersion k.ver
  ++ pairKeys id Search.aOwner k.own
  ++ pairKeys id Search.aType (typeStr r.typ)
  ++ pairKeys id Search.aCreationEpoch (decStr 0)
  ++ pairKeys id Search.aPayloadSize (decStr r.size)
  ++ pairKeys id Search.aChecksum k.cs
  ++ (if r.splitId != 0 then pairKeys id Search.aSplitID (splitBytes r.splitId) else [])
  ++ (if r.firstId != 0 then pairKeys id Search.aFirst (oidBytes r.firstId) else [])
  ++ (if r.parentId != 0 then pairKeys id Search.aParent (oidBytes r.parentId) else [])
  ++ (if r.root then pairKeys id Search.aRoot [49] else [])
  ++ (if r.phy then pairKeys id Search.aPhy [49] else [])
  ++ (if r.assoc != 0 then
        (if old then [Key.plain id aAssoc (b58Encode (oidBytes r.assoc)), .idAttr id aAssoc (b58Encode (oidBytes r.assoc))]
         else [Key.plain id aAssoc (oidBytes r.assoc), .idAttr id aAssoc (oidBytes r.assoc)])
      else [])
  ++ (match r.exp with | some s => pairKeys id (str "__NEOFS__EXPIRATION_EPOCH") (str s) | none => [])
  ++ (match r.ec with
      | some (a, b) => pairKeys id (str "__NEOFS__EC_RULE_IDX") (decStr a) ++ pairKeys id (str "__NEOFS__EC_PART_IDX") (decStr b)
      | none => [])
  ++ x.attrs.flatMap (fun p => pairKeys id p.1 p.2)
  ++ (if old then (match x.homo with | some h => [Key.plain id aHomo h, .idAttr id aHomo h] | none => []) else [])

/-- the keys in bbolt order (bytes computed once per key) -/
def sortedBytes (l : List Key) : List Bytes :=
  (l.map Key.bytes).mergeSort fun a b => Int256.lexCmp a b != .gt

structure Spec where
  from_ : Option Nat      -- none = no version key
  gone : List Nat
  badctr : Bool
  bc : Nat
  nh : Nat
  na : Nat
  short : Nat

def bulkHomo (i : Nat) : Bytes := 170 :: (List.replicate 55 0 ++ Int256.beBytes 8 (i + 1))

def bulkKeys (s : Spec) : List Key :=
  ((List.range s.nh).flatMap fun i =>
    let id := enc (100000 + i)
    [Key.plain id aHomo (bulkHomo i), .idAttr id aHomo (bulkHomo i)])
  ++ ((List.range (s.na + s.short)).flatMap fun i =>
    let id := enc (200000 + i)
    let target := if i < s.na then enc (1 + i % 12) else 1 + i % 12
    let v := b58Encode (oidBytes target)
    [Key.plain id aAssoc v, .idAttr id aAssoc v])

def extraOf (st : St) (c id : Nat) : Extra :=
  match st.extras.find? (fun e => e.1 == (c, id)) with
  | some e => e.2
  | none => {}

/-- one bucket of the old/native file -/
def bktOf (old : Bool) (k : Consts) (st : St) (s : Spec) (c : Nat) (cn : Cnr) (withBulk : Bool) : Bkt :=
  let keys := cn.recs.flatMap (fun r => recKeys old k r (extraOf st c (dec r.id)))
    ++ cn.garb.map (fun g => Key.garb g.1)
    ++ (if cn.gcMark then [Key.gcMark] else [])
    ++ (if withBulk then bulkKeys s else [])
  let ctr : Counters :=
    if s.from_ == some 9 then {}
    else if s.badctr && cn.ctr.phy > 0 then { cn.ctr with phy := cn.ctr.phy + 1, gc := cn.ctr.gc + 3, payload := cn.ctr.payload + 1000 }
    else cn.ctr
  { keys := keys, red := (cn.garb.filter (·.2)).map (·.1), ctr := some ctr }

def oldDB (k : Consts) (st : St) (s : Spec) : Migrate.DB :=
  let hasBulk := s.bc != 0 && s.nh + s.na + s.short > 0
  let base : List (Nat × Cnr) := if hasBulk && (getCnr? st.db s.bc).isNone then setCnr st.db s.bc {} else st.db
  { version := s.from_, legacyCtr := s.from_ == some 9, volume := s.from_ == some 9,
    bkts := base.map fun b => (b.1, bktOf true k st s b.1 b.2 (hasBulk && b.1 == s.bc)) }

/-! ### printing -/

def fnvStep (h b : Nat) : Nat := ((h ^^^ b) * 1099511628211) % 18446744073709551616

def digest (keys : List Key) : Nat :=
  (sortedBytes keys).foldl (fun h b =>
    let n := b.length
    b.foldl fnvStep (fnvStep (fnvStep h (n / 256 % 256)) (n % 256))) 14695981039346656037

def hex16 (n : Nat) : String :=
  String.ofList ((List.range 16).map fun i => hexDigit (n / 16 ^ (15 - i) % 16))

def j (sep : String) (xs : List String) : String := if xs.isEmpty then "-" else String.intercalate sep xs

def showRaw (db : Migrate.DB) (withCtr : Bool) : String :=
  let ver := match db.version with | some v => toString v | none => "-"
  let bs := db.bkts.map fun b => s!"{b.1}:{b.2.keys.length}:{hex16 (digest b.2.keys)}"
  let red := db.bkts.filterMap fun b =>
    if b.2.red.isEmpty then none else some s!"{b.1}:{String.intercalate "." (b.2.red.map fun i => toString (dec i))}"
  let ctr := db.bkts.map fun b =>
    let c := b.2.ctr.getD {}
    s!"{b.1}:{c.phy}/{c.root}/{c.ts}/{c.lock}/{c.link}/{c.gc}/{c.payload}"
  s!"ver={ver} leg={if db.legacyCtr then 1 else 0} vol={if db.volume then 1 else 0} b={j ";" bs} red={j ";" red} ctr={if withCtr then j ";" ctr else "-"}"

def showCounters (db : Migrate.DB) : String :=
  let t := db.bkts.foldl (fun (a : Counters) b =>
    let c := b.2.ctr.getD {}
    { phy := a.phy + c.phy, root := a.root + c.root, ts := a.ts + c.ts, lock := a.lock + c.lock, link := a.link + c.link,
      gc := a.gc + c.gc, payload := a.payload + c.payload }) {}
  let info := (List.range metaNC).map fun c =>
    match db.bkts.find? (·.1 == c + 1) with
    | none => "0/0"
    | some b =>
      if b.2.keys.contains .gcMark then "0/0"
      else let c := b.2.ctr.getD {}; s!"{c.payload}/{c.phy - c.gc}"
  s!"ctr={t.phy},{t.root},{t.ts},{t.lock},{t.link},{t.gc},{t.payload} info={String.intercalate "," info}"

/-- the read views of the model of the natively written metabase -/
def showViews (st : St) : String :=
  let addrs := (List.range metaNC).flatMap fun c => (List.range metaNO).map fun o => (c + 1, enc (o + 1))
  let ex := String.join (addrs.map fun a =>
    let (b, e) := dbExists st.db a.1 a.2 st.epoch
    if e != .ok then errCode e else if b then "T" else "F")
  let ge := String.join (addrs.map fun a => errCode (dbGet st.db a.1 a.2 false st.epoch).1)
  let gr := String.join (addrs.map fun a => errCode (dbGet st.db a.1 a.2 true st.epoch).1)
  let lk := String.join (addrs.map fun a => if dbIsLocked st.db a.1 a.2 st.epoch then "1" else "0")
  let rec pages (fuel : Nat) (cur : Option (Nat × Nat)) (acc : List String) : List String :=
    match fuel with
    | 0 => acc
    | fuel + 1 =>
      let (res, next) := dbList st.db 3 cur
      match next with
      | none => acc
      | some c => pages fuel (some c) (acc ++ res.map (fun a => s!"{a.1}/{dec a.2}") ++ ["|"])
  let list := pages 100 none []
  let exp := (dbExpired st.db st.epoch).map fun x => s!"{x.1}/{dec x.2.1}:{showType x.2.2}"
  let garb := (dbGarbage st.db 5).map fun b => s!"{b.1}:{String.intercalate "." (b.2.map fun i => toString (dec i))}"
  s!"E={ex} G={ge} R={gr} L={lk} list={j "," list} exp={j "," exp} garb={j "," garb}"

/-! ### ops -/

def parsePairs (s : String) : Option (List (Bytes × Bytes)) :=
  if s == "-" || s == "" then some []
  else (s.splitOn ",").mapM fun p =>
    match p.splitOn ":" with
    | [k, v] => match hexToBytes k, hexToBytes v with
      | some a, some b => some (a, b)
      | _, _ => none
    | _ => none

def parseSpec (o : OpLine) : Option (Spec × Consts) := do
  let f ← o.get? "from"
  let from_ ← if f == "none" then some none else f.toNat?.map some
  let gone := (o.nats? "gone").getD []
  let n (k : String) : Nat := (o.nat? k).getD 0
  let ver ← o.bytes? "ver"
  let own ← o.bytes? "own"
  let cs ← o.bytes? "cs"
  some ({ from_, gone, badctr := o.get? "badctr" == some "1", bc := n "bc", nh := n "nh", na := n "na", short := n "short" },
        { ver, own, cs })

def batchSize : Nat := 1000

def upgrade (st : St) (o : OpLine) (crash : Bool) : String :=
  match parseSpec o with
  | none => "=> bad-op"
  | some (s, k) =>
    let old := oldDB k st s
    let ex : Nat → Bool := fun c => !s.gone.contains c
    let supportedFrom := s.from_ == some 9 || s.from_ == some 10
    let kk := (o.nat? "k").getD 0
    if crash && kk == 0 then "=> bad-op" else
    let r0 := start old
    let crashed := crash && (match (steps ex batchSize (kk - 1) r0).ph with | .done => false | .refused => false | _ => true)
    let midDB := if crash then (if crashed then crashAfter ex batchSize kk old else migrate ex batchSize old) else old
    let final := migrateRun ex batchSize midDB
    let res := match final.ph with | .done => "ok" | .refused => "refused" | _ => "unfinished"
    let mid := if crash then showRaw midDB supportedFrom else "-"
    let head := s!"=> {res} old=[{showRaw old supportedFrom}] crashed={if crashed then 1 else 0} mid=[{mid}] new=[{showRaw final.db supportedFrom}]"
    if res != "ok" then head
    else if !supportedFrom then head ++ " ctr=- info=- views=[-]"
    else head ++ " " ++ showCounters final.db ++ " views=[" ++ (if s.gone.isEmpty then showViews st else "-") ++ "]"

def step (st : St) (o : OpLine) : St × String :=
  let c := (o.nat? "c").getD 0
  let ids := ((o.nats? "ids").getD []).map enc
  match o.name with
  | "facts" => (st, s!"=> cur={currentVersion} from={showNats supported}")
  | "epoch" => ({ st with epoch := (o.nat? "e").getD 0 }, "=> ok")
  | "put" =>
    match (o.get? "attrs").elim (some []) parsePairs with
    | none => (st, "=> bad-op")
    | some attrs =>
      let chain := (parseChain o).map encHdr
      let (db, e) := dbPut st.db st.epoch c chain
      let oid := (o.nat? "o").getD 0
      let x : Extra := { homo := o.bytes? "homo", attrs := attrs }
      let extras := if st.extras.any (fun e => e.1 == (c, oid)) then st.extras else ((c, oid), x) :: st.extras
      ({ st with db := db, extras := extras }, "=> " ++ errCode e)
  | "mark" => ({ st with db := dbMarkGarbage st.db st.epoch c ids (o.get? "red" == some "1") }, "=> K")
  | "inhumecnr" => ({ st with db := dbInhumeContainer st.db c }, "=> K")
  | "delcnr" => ({ st with db := dbDeleteContainer st.db c }, "=> K")
  | "delete" => ({ st with db := dbDelete st.db c ids }, "=> K")
  | "revive" =>
    let (db, r) := dbRevive st.db c (enc ((o.nat? "o").getD 0))
    ({ st with db := db }, match r with
      | .graveyard t => s!"=> graveyard tomb={dec t}"
      | .garbage => "=> garbage"
      | _ => "=> notrevived")
  | "open" => (st, upgrade st o false)
  | "crash" => (st, upgrade st o true)
  | _ => (st, "=> bad-op")

end NeoFS.Driver.Mig

namespace NeoFS.Driver
abbrev MigrateState := Mig.St
def migrateStep := Mig.step
end NeoFS.Driver
