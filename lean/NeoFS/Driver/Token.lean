import NeoFS.Base.Parse
import NeoFS.Model.Token
namespace NeoFS.Driver
open NeoFS.ACL

/-- what the token lines of a sequence share: the current epoch and the chain time (seconds) -/
structure ACLSt where
  epoch : Nat := 5
  time : Nat := 1000
  deriving Repr

def sigValid (sig : Nat) (mu : String) (iss sgn : Nat) : Bool :=
  sig == 1 && (mu == "none" || (mu == "iss" && iss == sgn))

/-- V1: ok / expired / denied (verb) / rejected -/
def v1Class : TokRes → String
  | .ok => "ok" | .expired => "expired" | .wrongVerb => "denied" | _ => "rejected"

def bearerClass : TokRes → String
  | .ok => "ok" | .expired | .authFail => "denied" | _ => "rejected"

def parseV1 (o : OpLine) : Option SessV1 :=
  match o.nat? "iss", o.nat? "sgn", o.nat? "sig", o.nat? "nbf", o.nat? "iat", o.nat? "exp", o.nat? "cnr", o.nats? "objs",
        o.nat? "verb", o.get? "mut" with
  | some iss, some sgn, some sig, some nbf, some iat, some exp, some cnr, some objs, some verb, some mu =>
    if !(1 ≤ iss && iss < 7 && 1 ≤ sgn && sgn < 7 && (cnr == 1 || cnr == 2)) then none
    else some { issuer := iss, signer := some sgn, sigOK := sigValid sig mu iss sgn, nbf := nbf, iat := iat, exp := exp,
                cnr := cnr, objs := objs, verb := verb }
  | _, _, _, _, _, _, _, _, _, _ => none

def parseCtx (s : String) : Option (List CtxV2) :=
  if s == "-" then some []
  else (s.splitOn "|").mapM fun p =>
    match p.splitOn ":" with
    | [c, vs] =>
      match c.toNat?, (if vs == "" then some [] else (vs.splitOn ".").mapM String.toNat?) with
      | some cn, some verbs => some { cnr := cn, verbs := verbs }
      | _, _ => none
    | _ => none

def parseV2 (o : OpLine) : Option SessV2 :=
  match o.nat? "ver", o.nat? "iss", o.nat? "sgn", o.nat? "sig", o.nat? "iat", o.nat? "nbf", o.nat? "exp", o.nats? "subj",
        (o.get? "ctx").bind parseCtx, o.get? "mut" with
  | some ver, some iss, some sgn, some sig, some iat, some nbf, some exp, some subj, some ctx, some mu =>
    if !(iss < 7 && 1 ≤ sgn && sgn < 7) then none
    else some { version := ver, issuer := iss, signer := some sgn, sigOK := sigValid sig mu iss sgn, iat := iat, nbf := nbf, exp := exp,
                subjects := subj, contexts := ctx }
  | _, _, _, _, _, _, _, _, _, _ => none

/-- level `i` of a `v2c` line: `t<i>=iss,sgn,sig,iat,nbf,exp,fin,ver s<i>=subjects c<i>=contexts m<i>=field changed after signing` -/
def parseLinkV2 (o : OpLine) (i : Nat) : Option LinkV2 :=
  let k (p : String) := p ++ toString i
  match o.nats? (k "t"), o.nats? (k "s"), (o.get? (k "c")).bind parseCtx, o.get? (k "m") with
  | some [iss, sgn, sig, iat, nbf, exp, fin, ver], some subj, some ctx, some mu =>
    if !(iss < 7 && 1 ≤ sgn && sgn < 7 && fin ≤ 1 && sig ≤ 1) then none
    else some { t := { version := ver, issuer := iss, signer := some sgn, sigOK := sigValid sig mu iss sgn, iat := iat, nbf := nbf,
                       exp := exp, subjects := subj, contexts := ctx },
                final := fin == 1 }
  | _, _, _, _ => none

/-- the `n` origins of a `v2c` line, nearest first -/
def parseOrigins (o : OpLine) (n : Nat) : Option (List LinkV2) :=
  (List.range n).mapM fun i => parseLinkV2 o (i + 1)

def tokStep (s : ACLSt) (o : OpLine) : Option (ACLSt × String) :=
  match o.name with
  | "epoch" => (o.nat? "e").map fun e => ({ s with epoch := e }, "=> ok")
  | "time" => (o.nat? "t").map fun t => ({ s with time := t }, "=> ok")
  | "purge" => some (s, "=> ok")
  | "v1" =>
    match parseV1 o, o.nat? "rv", o.nat? "rc", o.nat? "ro" with
    | some t, some rv, some rc, some ro =>
      if !(rc == 1 || rc == 2) then some (s, "=> bad-op")
      else
        let res := v1Check t s.epoch rv rc (if ro == 0 then none else some ro)
        let eff := match credentials 6 (some (t.issuer, res)) with
          | some a => " as=" ++ toString a
          | none => ""
        some (s, "=> " ++ v1Class res ++ eff)
    | _, _, _, _ => some (s, "=> bad-op")
  | "v2" =>
    match parseV2 o, o.nat? "rv", o.nat? "rc" with
    | some t, some rv, some rc =>
      if !(rc == 1 || rc == 2) then some (s, "=> bad-op")
      else
        let res := v2Check t s.time rv rc
        let eff := match credentials 6 (some (t.issuer, res)) with
          | some a => " as=" ++ toString a
          | none => ""
        some (s, "=> " ++ v1Class res ++ eff)
    | _, _, _ => some (s, "=> bad-op")
  | "v2c" =>
    match o.nat? "n", o.nat? "rv", o.nat? "rc" with
    | some n, some rv, some rc =>
      if !((rc == 1 || rc == 2) && n ≤ 8) then some (s, "=> bad-op")
      else match parseLinkV2 o 0, parseOrigins o n with
        | some x, some os =>
          let res := v2ChainCheck x os s.time rv rc
          let eff := match credentials 6 (some (originalIssuer x os, res)) with
            | some a => " as=" ++ toString a
            | none => ""
          some (s, "=> " ++ v1Class res ++ eff)
        | _, _ => some (s, "=> bad-op")
    | _, _, _ => some (s, "=> bad-op")
  | "v2depth" => some (s, "=> ok max=" ++ toString maxDelegationDepth)
  | "bearer" =>
    match o.nat? "iss", o.nat? "sgn", o.nat? "sig", o.nat? "nbf", o.nat? "iat", o.nat? "exp", o.get? "mut" with
    | some iss, some sgn, some sig, some nbf, some iat, some exp, some mu =>
      if !(iss < 7 && 1 ≤ sgn && sgn < 7) then some (s, "=> bad-op")
      else
        let b : Bearer := { issuer := iss, signer := some sgn, sigOK := sigValid sig mu iss sgn, nbf := nbf, iat := iat, exp := exp,
                            cnr := none, target := none, table := [] }
        some (s, "=> " ++ bearerClass (bearerCheck b s.epoch))
    | _, _, _, _, _, _, _ => some (s, "=> bad-op")
  | "objauth" =>
    match parseV1 o with
    | some t => some (s, if v1Auth t then "=> ok" else "=> err")
    | none => some (s, "=> bad-op")
  | "mutbyte" =>
    match o.get? "k", o.nat? "pos" with
    | some k, some _ => if k == "v1" || k == "v2" || k == "b" then some (s, "=> not-ok") else some (s, "=> bad-op")
    | _, _ => some (s, "=> bad-op")
  | _ => none

end NeoFS.Driver
