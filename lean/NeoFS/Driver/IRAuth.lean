import NeoFS.Base.Parse
import NeoFS.Model.IRAuth
namespace NeoFS.Driver
open NeoFS.IRAuth

/-- the harness' key lists: 7 keys, the node's key (0) at position `idx` when `0 ≤ idx < 7` -/
def authList (idx : Int) : List Nat :=
  (List.range 7).map fun (i : Nat) => if Int.ofNat i = idx then (0 : Nat) else i + 1

def irAuthStep (o : OpLine) : String :=
  match o.name with
  | "index" =>
    match o.int? "iridx", o.int? "aidx", o.nat? "ferr" with
    | some iridx, some aidx, some ferr =>
      let ai := alphabetIndex (ferr == 1) 0 (authList aidx)
      let ii := alphabetIndex (ferr == 1) 0 (authList iridx)
      s!"=> ok alpha={isAlphabet ai} aidx={ai} active={isAlphabet ii}"
    | _, _, _ => "=> bad-op"
  | "vote" =>
    match o.int? "iridx", o.int? "aidx", o.nat? "n", o.nat? "nval", o.nat? "voted", o.nat? "ferr" with
    | some _, some aidx, some n, some nval, some voted, some ferr =>
      let ai := alphabetIndex (ferr == 1) 0 (authList aidx)
      s!"=> ok invokes={voteInvokes ai n nval (voted == 1 && nval ≤ 1)}"
    | _, _, _, _, _, _ => "=> bad-op"
  | "epoch" =>
    match o.nat? "alpha", o.nat? "changed", o.nat? "cnrs" with
    | some a, some ch, some k => s!"=> ok effects={epochEffects (a == 1) (ch == 1) k}"
    | _, _, _ => "=> bad-op"
  | "tick" =>
    match o.nat? "alpha" with
    | some a => s!"=> ok effects={tickEffects (a == 1)}"
    | none => "=> bad-op"
  | "emit" =>
    match o.int? "aidx", o.nat? "n", o.nat? "nodes", o.nat? "emission" with
    | some aidx, some n, some nodes, some em => s!"=> ok effects={emitEffects aidx n nodes em}"
    | _, _, _, _ => "=> bad-op"
  | _ => "=> bad-op"

end NeoFS.Driver
