import NeoFS.Model.Meta
/-
Reference rules of properties C01/C02/C07, stated declaratively over what the metabase stores
(`Meta.Cnr`): written from the property statements, not from the code paths of `Model/Meta.lean`.

* removed      — a tombstone targets the object;
* not found    — it carries a (non-redundant) garbage mark, or its container is removed;
* expired      — its expiration epoch parses as a decimal uint64 and the current epoch is greater;
* a live lock (SOME stored lock object targeting it that has not expired and is not itself removed or
  marked) overrides expiry and garbage marks;
* a child takes the worse of its own and its parent's status, two levels up at most.
-/
namespace NeoFS.Meta.Ref
open NeoFS.Meta

def tombstoned (c : Cnr) (id : Nat) : Bool := c.recs.any fun r => r.typ == .tombstone && r.assoc == id

def marked (c : Cnr) (id : Nat) : Bool := c.garb.any fun g => g.1 == id && !g.2

def expiredAt (r : Rec) (epoch : Nat) : Bool :=
  match r.exp.bind parseUint64 with
  | some e => decide (epoch > e)
  | none => false

/-- some stored lock targets `id`, has not expired (expiry is not checked at epoch 0) and is not removed -/
def liveLock (c : Cnr) (epoch id : Nat) : Bool :=
  c.recs.any fun r => r.typ == .lock && r.assoc == id && !(epoch > 0 && expiredAt r epoch)
    && !tombstoned c r.id && !marked c r.id

/-- the stored object `id` has passed its expiration epoch -/
def ownExpired (c : Cnr) (epoch id : Nat) : Bool :=
  match c.find? id with
  | some r => expiredAt r epoch
  | none => false

def ownStatus (c : Cnr) (epoch id : Nat) : Status :=
  let exp := ownExpired c epoch id
  let locked := liveLock c epoch id
  if exp && !locked then .expired
  else if tombstoned c id && !locked then .tombstoned
  else if marked c id && !locked then .gcMarked
  else .available

/-- the parent of a stored object: its parent id, or the parent id some sibling of its chain carries -/
def parentOf (c : Cnr) (id : Nat) : Nat :=
  match c.find? id with
  | none => 0
  | some r =>
    if r.parentId != 0 then r.parentId
    else if r.firstId != 0 then
      ((c.recs.find? fun x => x.firstId == r.firstId && x.parentId != 0).map (·.parentId)).getD 0
    else if r.splitId != 0 then
      ((c.recs.find? fun x => x.splitId == r.splitId && x.parentId != 0).map (·.parentId)).getD 0
    else 0

def worse (a b : Status) : Status := if a.rank ≥ b.rank then a else b

/-- reference status of an address in a live container -/
def status (c : Cnr) (epoch id : Nat) : Status :=
  let s0 := ownStatus c epoch id
  let p1 := parentOf c id
  if s0 == .tombstoned || s0 == .expired || p1 == 0 then s0
  else
    let s1 := ownStatus c epoch p1
    let p2 := parentOf c p1
    let s1' := if s1 == .tombstoned || s1 == .expired || p2 == 0 then s1 else worse (ownStatus c epoch p2) s1
    worse s1' s0

/-- what an existence check should answer: T/F for available, otherwise the error class -/
def existsCode (db : DB) (cn id epoch : Nat) : String :=
  match getCnr? db cn with
  | none => "F"
  | some c =>
    if c.gcMark then "N"
    else match status c epoch id with
      | .gcMarked => "N" | .tombstoned => "R" | .expired => "X"
      | .available =>
        match c.parentInfo id with
        | .ecParts _ => "E"
        | .split .. => "S"
        | .none => if (c.find? id).isSome then "T" else "F"

/-- physical objects not marked for removal (what listing shows), per live container -/
def liveObjects (c : Cnr) : List Rec :=
  if c.gcMark then [] else c.recs.filter fun r => r.phy && !tombstoned c r.id && !marked c r.id

/-- any garbage mark, including the "redundant copy" kind: scheduled for removal by GC -/
def markedAny (c : Cnr) (id : Nat) : Bool := c.garb.any fun g => g.1 == id

/-- physical objects that are neither tombstoned nor scheduled for removal (size estimation) -/
def keptObjects (c : Cnr) : List Rec :=
  if c.gcMark then [] else c.recs.filter fun r => r.phy && !tombstoned c r.id && !markedAny c r.id

/-- exactly the expired, unlocked objects of live containers (as a sorted list of addresses) -/
def expiredSet (db : DB) (epoch : Nat) : List (Nat × Nat) :=
  db.flatMap fun b =>
    if b.2.gcMark then []
    else (b.2.recs.filter fun r => expiredAt r epoch && !liveLock b.2 epoch r.id).map fun r => (b.1, r.id)

/-- the counters the statement defines: number of indexed objects of each kind in live containers -/
def counters (db : DB) : Nat × Nat × Nat × Nat × Nat :=
  db.foldl (fun (a : Nat × Nat × Nat × Nat × Nat) b =>
    if b.2.gcMark then a
    else
      let n (p : Rec → Bool) : Nat := (b.2.recs.filter p).length
      (a.1 + n (·.phy), a.2.1 + n (·.root), a.2.2.1 + n (·.typ == .tombstone), a.2.2.2.1 + n (·.typ == .lock),
       a.2.2.2.2 + n (·.typ == .link))) (0, 0, 0, 0, 0)

/-- (payload size, number) of stored physical objects not marked for removal -/
def containerInfo (db : DB) (cn : Nat) : Nat × Nat :=
  match getCnr? db cn with
  | none => (0, 0)
  | some c => let l := keptObjects c; ((l.map (·.size)).sum, l.length)

end NeoFS.Meta.Ref
