/-
Reference meaning of a payload range request (property C11), independent of machine arithmetic.
Modes are numbered as `common.PayloadRangeMode`: 0 none, 1 offset+length, 2 inclusive bounds,
3 from-position, 4 suffix length.
-/
namespace NeoFS.Spec

/-- The slice `(offset, length)` of a payload of length `n` that the request denotes, or `none` when it
is unsatisfiable. -/
def rangeSlice (mode first second n : Nat) : Option (Nat × Nat) :=
  match mode with
  | 0 => some (0, n)
  | 1 =>
    if second = 0 then (if first = 0 then some (0, n) else none)   -- zero length: whole payload, only from 0
    else if first + second ≤ n then some (first, second) else none
  | 2 =>
    if first ≤ second ∧ first < n then some (first, min second (n - 1) - first + 1) else none
  | 3 => if first = 0 then some (0, n)                    -- from the very beginning: the whole payload
         else if first < n then some (first, n - first) else none
  | 4 => if first = 0 then none else some (n - min first n, min first n)
  | _ => none

/-- The bytes of a slice. -/
def sliceBytes (payload : List Nat) (off ln : Nat) : List Nat := (payload.drop off).take ln

end NeoFS.Spec
