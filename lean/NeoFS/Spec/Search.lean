/-
Declarative reference for the object search (property C03), independent of any index:
the available objects that satisfy every filter, each with the requested attribute values, ordered by the first
requested attribute (stored bytes, or the numeric value for a numeric first filter) and then by id, cut into pages
after the cursor.
-/
import NeoFS.Model.Search
namespace NeoFS.Search
open NeoFS.Int256

/-- the stored value of attribute `a` of the object. -/
def lookup (o : Obj) (a : Bytes) : Option Bytes := (o.attrs.find? (fun p => p.1 = a)).map (·.2)

/-- numeric comparison of a numeric matcher. -/
def intSat (m : Op) (z x : Int) : Bool :=
  match m with
  | .gt => ordInt z x == .gt
  | .ge => ordInt z x != .lt
  | .lt => ordInt z x == .lt
  | .le => ordInt z x != .gt
  | _ => false

/-- does the object satisfy one filter?  A value counts as an integer only if `ParseDecimal` accepts it. -/
def satisfies (o : Obj) (f : Filter) : Bool :=
  match lookup o f.attr with
  | none => f.cop = .np
  | some db =>
    if f.cop = .np then false
    else if f.cop.isInt then
      match parseInt db, parseInt f.cval with
      | some z, some x => intSat f.cop z.toInt x.toInt
      | _, _ => false
    else matchPlain f.attr db f.cop f.cval == some true

def isMatch (fs : List Filter) (o : Obj) : Bool := o.avail && fs.all (satisfies o)

/-- how results are ordered. -/
inductive Ordering3 | byId | byBytes | byInt
  deriving DecidableEq

def orderOf (fs : List Filter) (attrs : List Bytes) : Ordering3 :=
  match fs with
  | [] => .byId
  | f0 :: _ => if attrs.isEmpty || f0.cop = .np then .byId else if f0.cop.isInt then .byInt else .byBytes

def primVal (fs : List Filter) (o : Obj) : Bytes :=
  match fs with
  | [] => []
  | f0 :: _ => (lookup o f0.attr).getD []

def primInt (fs : List Filter) (o : Obj) : Int :=
  match parseInt (primVal fs o) with
  | some z => z.toInt
  | none => 0

/-- `o1` comes before or at `o2`. -/
def specLe (fs : List Filter) (attrs : List Bytes) (o1 o2 : Obj) : Bool :=
  match orderOf fs attrs with
  | .byId => o1.id ≤ o2.id
  | .byBytes =>
    match lexCmp (primVal fs o1) (primVal fs o2) with
    | .lt => true
    | .gt => false
    | .eq => o1.id ≤ o2.id
  | .byInt =>
    if primInt fs o1 < primInt fs o2 then true
    else if primInt fs o2 < primInt fs o1 then false
    else o1.id ≤ o2.id

/-- the requested attribute values of a result: the first one in canonical decimal form for a numeric first filter. -/
def itemOf (fs : List Filter) (attrs : List Bytes) (o : Obj) : Item :=
  match attrs with
  | [] => ⟨o.id, []⟩
  | _ :: rest =>
    let first : Bytes :=
      match fs with
      | [] => []
      | f0 :: _ =>
        match orderOf fs attrs with
        | .byInt => (match parseInt (primVal fs o) with
                     | some z => (toDec z).map Char.toNat
                     | none => [])
        | .byBytes => (restore f0.attr (primVal fs o)).getD []
        | .byId => (restore f0.attr []).getD []   -- first filter is NOT_PRESENT: the attribute is absent
    ⟨o.id, first :: rest.map (fun a => (restore a ((lookup o a).getD [])).getD [])⟩

/-- all matching objects in result order. -/
def specObjs (objs : List Obj) (fs : List Filter) (attrs : List Bytes) : List Obj :=
  if blindly fs then [] else (objs.filter (isMatch fs)).mergeSort (specLe fs attrs)

def specList (objs : List Obj) (fs : List Filter) (attrs : List Bytes) : List Item :=
  (specObjs objs fs attrs).map (itemOf fs attrs)

/-- the cursor that designates a result object: the key of its element of the primary index without the first byte. -/
def cursorOf (fs : List Filter) (attrs : List Bytes) (o : Obj) : Bytes :=
  match orderOf fs attrs with
  | .byId => oidBytes o.id
  | .byBytes => (keyPlain (attrs.headD []) (primVal fs o) o.id).drop 1
  | .byInt =>
    match parseInt (primVal fs o) with
    | some z => (keyInt (attrs.headD []) (encode z) o.id).drop 1
    | none => []

end NeoFS.Search
