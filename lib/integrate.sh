#!/bin/bash
# usage: lib/integrate.sh <name>  -- bring a builder's new files into /verif and cherry-pick its repo commits
N=$1; W=/tmp/b/$N
cd $W/verif || exit 1
echo "== new files"
rsync -a --ignore-existing --exclude .build --exclude 'lean/.lake' --exclude evidence --exclude replays --exclude __pycache__ \
  --exclude MANIFEST.json --exclude 'harness/go.sum' --out-format='%n' ./ /verif/ | grep -v '/$'
echo "== files that differ (merge by hand)"
rsync -rcn --exclude .build --exclude 'lean/.lake' --exclude evidence --exclude replays --exclude __pycache__ \
  --exclude MANIFEST.json --exclude 'harness/go.sum' --exclude .gitignore --out-format='%n' ./ /verif/ | grep -v '/$'
echo "== repo commits"
base=$(git -C /repo merge-base main b-$N)
git -C /repo log --oneline --reverse $base..b-$N
