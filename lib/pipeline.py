"""Check pipeline: generate, prove, audit, build, correspond, search, verdict, evidence."""
import argparse
import fcntl
import json
import os
import re
import shutil
import subprocess
import sys
import time

import props as P

ROOT = os.path.dirname(os.path.dirname(os.path.abspath(__file__)))
LEAN = os.path.join(ROOT, "lean")
HARNESS = os.path.join(ROOT, "harness")
BUILD = os.path.join(ROOT, ".build")
REPO = os.environ.get("VERIF_REPO", "/repo")
VH = os.path.join(BUILD, "vh")
MODEL = os.path.join(LEAN, ".lake", "build", "bin", "neofs_model")
ALLOWED_AXIOMS = {"propext", "Classical.choice", "Quot.sound"}
FORBIDDEN = ["sorry", "admit", "native_decide", "bv_decide", "implemented_by", "unsafe ", "maxHeartbeats 0"]


def goenv():
    e = dict(os.environ)
    e["GOFLAGS"] = "-mod=mod"
    e["GOPROXY"] = "off"
    e.pop("GOSUMDB", None)  # GOSUMDB=off breaks verification of the cached toolchain
    e.pop("GONOSUMDB", None)
    e["GOTOOLCHAIN"] = "auto"
    e["CGO_ENABLED"] = e.get("CGO_ENABLED", "0")
    return e


def run(cmd, cwd=None, env=None, timeout=None, stdin=None, stdout=None):
    p = subprocess.run(cmd, cwd=cwd, env=env, timeout=timeout, stdin=stdin,
                       stdout=stdout if stdout is not None else subprocess.PIPE,
                       stderr=subprocess.STDOUT if stdout is None else subprocess.PIPE, text=True)
    return p.returncode, (p.stdout if stdout is None else (p.stderr or ""))


class Lock:
    def __init__(self, name):
        os.makedirs(BUILD, exist_ok=True)
        self.path = os.path.join(BUILD, name)

    def __enter__(self):
        self.f = open(self.path, "w")
        fcntl.flock(self.f, fcntl.LOCK_EX)
        return self

    def __exit__(self, *a):
        fcntl.flock(self.f, fcntl.LOCK_UN)
        self.f.close()


# --------------------------------------------------------------------------- stages

def stage_generate(log):
    """Regenerate lean/NeoFS/Gen/*.lean from /repo's working tree."""
    import generate
    return generate.regenerate(REPO, LEAN, BUILD, goenv(), log)


def strip_comments(src):
    src = re.sub(r"/-.*?-/", "", src, flags=re.S)
    src = re.sub(r"--.*", "", src)
    return src


def lean_sources():
    out = []
    for d, _, fs in os.walk(os.path.join(LEAN, "NeoFS")):
        for f in fs:
            if f.endswith(".lean"):
                out.append(os.path.join(d, f))
    out.append(os.path.join(LEAN, "Main.lean"))
    return sorted(out)


def theorem_at(path, line):
    """Name of the theorem/def enclosing `line` of a Lean file."""
    name = None
    try:
        with open(path) as f:
            for i, l in enumerate(f, 1):
                m = re.match(r"\s*(?:@\[[^\]]*\]\s*)?(?:private\s+|protected\s+)?(theorem|lemma|def|example|instance|abbrev)\s+([^\s:({\[]+)?", l)
                if m:
                    name = m.group(2) or ("example@%d" % i)
                if i >= line:
                    break
    except OSError:
        pass
    return name


def stage_prove(cfg, log):
    """lake build of the property's modules and the model driver. Returns list of broken items."""
    targets = list(cfg["lean_modules"]) + ["neofs_model"]
    rc, out = run(["lake", "build"] + targets, cwd=LEAN, timeout=3600)
    log.write(out)
    broken = []
    if rc != 0:
        for m in re.finditer(r"error: (\S+\.lean):(\d+):(\d+): (.*)", out):
            path = os.path.join(LEAN, m.group(1)) if not os.path.isabs(m.group(1)) else m.group(1)
            broken.append({"file": m.group(1), "line": int(m.group(2)),
                           "decl": theorem_at(path, int(m.group(2))), "message": m.group(4)[:300]})
        if not broken:
            broken.append({"file": "?", "line": 0, "decl": None, "message": out[-600:]})
    return broken


def stage_audit(cfg, pid, log):
    """Axiom audit of every property theorem + forbidden-token scan."""
    problems = []
    axioms = {}
    for path in lean_sources():
        with open(path) as f:
            src = strip_comments(f.read())
        for tok in FORBIDDEN:
            if tok in src:
                problems.append("forbidden token %r in %s" % (tok, os.path.relpath(path, LEAN)))
        if re.search(r"^\s*axiom\s", src, flags=re.M):
            problems.append("axiom declaration in %s" % os.path.relpath(path, LEAN))
    os.makedirs(BUILD, exist_ok=True)
    audit = os.path.join(BUILD, "audit_%s_%d.lean" % (pid, os.getpid()))
    with open(audit, "w") as f:
        for m in cfg["lean_modules"]:
            f.write("import %s\n" % m)
        for t in cfg["theorems"]:
            f.write("#print axioms %s\n" % t)
    rc, out = run(["lake", "env", "lean", audit], cwd=LEAN, timeout=1800)
    os.unlink(audit)
    log.write(out)
    cur = None
    for line in out.splitlines():
        m = re.match(r"'([^']+)' depends on axioms: \[(.*)", line)
        if m:
            cur = m.group(1)
            axioms[cur] = m.group(2)
            continue
        m = re.match(r"'([^']+)' does not depend on any axioms", line)
        if m:
            axioms[m.group(1)] = ""
            cur = None
            continue
        if cur is not None and not line.startswith("'"):
            axioms[cur] += " " + line
    parsed = {}
    for t in cfg["theorems"]:
        if t not in axioms:
            problems.append("theorem %s missing from the build (renamed, removed or not compiled)" % t)
            continue
        ax = [a.strip().rstrip("]") for a in axioms[t].replace("]", "").split(",") if a.strip().rstrip("]")]
        parsed[t] = ax
        bad = [a for a in ax if a not in ALLOWED_AXIOMS]
        if bad:
            problems.append("theorem %s depends on non-standard axioms %s" % (t, bad))
    if rc != 0 and not problems:
        problems.append("audit file failed to elaborate: " + out[-400:])
    return problems, parsed


def stage_leanchecker(cfg, log):
    probs = []
    for m in cfg["lean_modules"]:
        rc, out = run(["lake", "env", "leanchecker", m], cwd=LEAN, timeout=3600)
        log.write(out)
        if rc != 0:
            probs.append("leanchecker rejected %s: %s" % (m, out[-300:]))
    return probs


def stage_build_impl(log):
    """Build the harness against /repo's current working tree with hooks on."""
    os.makedirs(BUILD, exist_ok=True)
    shutil.copyfile(os.path.join(REPO, "go.sum"), os.path.join(HARNESS, "go.sum"))
    if REPO != "/repo":  # scratch copies of /verif working against a scratch worktree of the repository
        run(["go", "mod", "edit", "-replace", "github.com/nspcc-dev/neofs-node=" + REPO], cwd=HARNESS, env=goenv())
    rc, out = run(["go", "build", "-tags", "verif", "-o", VH, "."], cwd=HARNESS, env=goenv(), timeout=3600)
    log.write(out)
    return rc == 0, out


def run_engine(eng, pid, tier, seed, budget, work, tag, replay=None, timeout=None, want_ref=False):
    ops = os.path.join(work, "%s.ops" % tag)
    impl = os.path.join(work, "%s.impl" % tag)
    stats = os.path.join(work, "%s.stats.json" % tag)
    model = os.path.join(work, "%s.model" % tag)
    cmd = [VH, eng, "--prop", pid, "--tier", tier, "--seed", str(seed), "--budget", str(budget),
           "--ops", ops, "--impl", impl, "--stats", stats]
    if replay:
        cmd += ["--replay", replay]
    env = dict(os.environ)
    env["TMPDIR"] = work
    env.setdefault("GOMEMLIMIT", "6GiB")
    res = {"engine": eng, "ops": ops, "impl": impl, "stats_path": stats, "model": model,
           "crashed": None, "stats": None, "diff": None}
    try:
        p = subprocess.run(cmd, env=env, timeout=timeout or (7200 if tier == "thorough" else 1500),
                           stdout=subprocess.PIPE, stderr=subprocess.STDOUT, text=True)
        if p.returncode != 0:
            res["crashed"] = "harness exit %d: %s" % (p.returncode, p.stdout[-1500:])
    except subprocess.TimeoutExpired:
        res["crashed"] = "harness timeout"
    if os.path.exists(stats):
        with open(stats) as f:
            res["stats"] = json.load(f)
    if not os.path.exists(ops):
        res["crashed"] = res["crashed"] or "no ops file"
        return res
    menv = dict(os.environ)
    if want_ref:
        menv["NEOFS_MODEL_REF"] = "1"
    with open(ops) as fi, open(model, "w") as fo:
        p = subprocess.run([MODEL], stdin=fi, stdout=fo, stderr=subprocess.PIPE, text=True, env=menv)
        if p.returncode != 0:
            res["crashed"] = (res["crashed"] or "") + " model driver exit %d: %s" % (p.returncode, p.stderr[-500:])
    res["ref_lines"] = split_ref(model) if want_ref else None
    res["spec_failures"] = split_spec(ops, model)
    res["diff"] = first_diff(ops, impl, model)
    return res


def split_ref(model):
    """Strip the ' ## REF k=v ...' part (reference views) from the model stream; returns it per line."""
    with open(model) as f:
        lines = f.read().split("\n")
    refs = []
    for i, l in enumerate(lines):
        if " ## REF " in l:
            lines[i], r = l.split(" ## REF ", 1)
            refs.append(dict(t.split("=", 1) for t in r.split(" ") if "=" in t))
        else:
            refs.append(None)
    with open(model, "w") as f:
        f.write("\n".join(lines))
    return refs


def norm_field(k, v):
    """Canonical form of a view field for comparing an implementation view with the reference view."""
    if k == "list":
        return ",".join(x for x in v.split(",") if x not in ("|", "-", ""))
    if k == "exp":
        return ",".join(sorted((x.split(":")[0] for x in v.split(",") if x not in ("-", "")),
                               key=lambda a: tuple(int(y) for y in a.split("/"))))
    if k == "ctr":
        return ",".join(v.split(",")[:5])
    return v


def impl_vs_reference(eng, pid, seq, work):
    """Replay seq; compare the implementation's last observation with the reference views of the model state.
    Returns a description of the first disagreeing field, or None."""
    rp = os.path.join(work, "ref.replay.ops")
    with open(rp, "w") as f:
        f.write("reset\n" + "\n".join(seq) + "\n")
    r = run_engine(eng, pid, "quick", 0, 1, work, "ref", replay=rp, timeout=300, want_ref=True)
    refs = r.get("ref_lines") or []
    with open(r["impl"]) as f:
        impl = f.read().split("\n")
    for i in range(len(refs) - 1, -1, -1):
        if refs[i] and i < len(impl):
            obs = dict(t.split("=", 1) for t in impl[i].split(" ") if "=" in t)
            for k, want in refs[i].items():
                if k in obs and norm_field(k, obs[k]) != norm_field(k, want):
                    return "field %s: implementation reports %s, the reference rules give %s" % (k, obs[k][:200], want[:200])
            return None
    return None


def split_spec(ops, model):
    """The model driver appends ' ## FAIL a(b) c(d)' when a view of the model disagrees with the declarative
    reference (Spec/*.lean). Strip it (the implementation stream has no such part) and return the failures as
    oracle-style records with the op sequence that leads to them."""
    with open(model) as f:
        lines = f.read().split("\n")
    if not any(" ## FAIL " in l for l in lines):
        return []
    with open(ops) as f:
        o = f.read().split("\n")
    out, sigs = [], {}
    start = 0
    for i, l in enumerate(lines):
        if i < len(o) and o[i] == "reset":
            start = i
        if " ## FAIL " not in l:
            continue
        left, right = l.split(" ## FAIL ", 1)
        lines[i] = left
        for tok in right.split(" "):
            name = tok.split("(")[0].split("@")[0]
            cause = "cause=" in tok
            key = (name, cause)
            sigs[key] = sigs.get(key, 0) + 1
            if sigs[key] <= 4:
                out.append({"assertion": name, "detail": tok, "ops": [x for x in o[start + 1:i + 1] if x and x != "reset"]})
    with open(model, "w") as f:
        f.write("\n".join(lines))
    return out


def first_diff(ops, impl, model):
    """First line where implementation and model observations differ -> dict with the enclosing sequence."""
    with open(ops) as f:
        o = f.read().split("\n")
    with open(impl) as f:
        a = f.read().split("\n")
    with open(model) as f:
        b = f.read().split("\n")
    n = max(len(a), len(b))
    for i in range(n):
        x = a[i] if i < len(a) else "<missing>"
        y = b[i] if i < len(b) else "<missing>"
        if x != y:
            start = i
            while start > 0 and (start >= len(o) or o[start] != "reset"):
                start -= 1
            seq = [l for l in o[start:i + 1] if l and l != "reset"]
            return {"line": i + 1, "op": o[i] if i < len(o) else "", "impl": x, "model": y, "seq": seq}
    return None


def replay_seq(eng, pid, seq, work, tag):
    """Run one op sequence on both sides; return (diff, failures, stats)."""
    rp = os.path.join(work, "%s.replay.ops" % tag)
    with open(rp, "w") as f:
        f.write("reset\n" + "\n".join(seq) + "\n")
    r = run_engine(eng, pid, "quick", 0, 1, work, tag, replay=rp, timeout=300)
    fails = (r["stats"] or {}).get("failures") or []
    return r["diff"], fails, r


def ddmin(seq, pred, max_iters=400):
    """Delta debugging over op lines: smallest subsequence for which pred still holds."""
    n = 2
    iters = 0
    while len(seq) >= 2 and iters < max_iters:
        chunk = max(1, len(seq) // n)
        reduced = False
        for i in range(0, len(seq), chunk):
            cand = seq[:i] + seq[i + chunk:]
            iters += 1
            if cand and pred(cand):
                seq = cand
                n = max(n - 1, 2)
                reduced = True
                break
            if iters >= max_iters:
                break
        if not reduced:
            if chunk == 1:
                break
            n = min(len(seq), n * 2)
    return seq


# --------------------------------------------------------------------------- findings

def load_findings():
    out = []
    p = os.path.join(ROOT, "known_findings.json")
    if os.path.exists(p):
        with open(p) as f:
            out += json.load(f).get("findings", [])
    d = os.path.join(ROOT, "known_findings.d")  # per-property drop-in files, same format
    for fn in sorted(os.listdir(d)) if os.path.isdir(d) else []:
        if fn.endswith(".json"):
            with open(os.path.join(d, fn)) as f:
                out += json.load(f).get("findings", [])
    return out


def match_finding(findings, pid, assertion, text):
    """A failure is a known finding only if property, assertion and trigger pattern all match."""
    for k in findings:
        if k.get("status") != "known" or k.get("property") != pid:
            continue
        if k.get("assertion") != assertion:
            continue
        if re.search(k.get("trigger", "$^"), text, flags=re.S):
            return k
    return None


# --------------------------------------------------------------------------- main

def write_evidence(pid, ev):
    os.makedirs(os.path.join(ROOT, "evidence"), exist_ok=True)
    with open(os.path.join(ROOT, "evidence", pid + ".json"), "w") as f:
        json.dump(ev, f, indent=1, sort_keys=True)
        f.write("\n")


def write_replay(pid, seed, obj):
    os.makedirs(os.path.join(ROOT, "replays"), exist_ok=True)
    path = os.path.join(ROOT, "replays", "%s-%s.json" % (pid, seed))
    with open(path, "w") as f:
        json.dump(obj, f, indent=1)
        f.write("\n")
    return os.path.relpath(path, ROOT)


def setup():
    t0 = time.time()
    os.makedirs(BUILD, exist_ok=True)
    with open(os.path.join(BUILD, "setup.log"), "w") as log, Lock("lock"):
        ok = stage_generate(log)
        if ok is not True:
            print("setup: generation problems:", ok)
        mods = sorted({m for c in P.PROPS.values() for m in c["lean_modules"]})
        rc, out = run(["lake", "build", "NeoFS", "neofs_model"] + mods, cwd=LEAN, timeout=7200)
        log.write(out)
        if rc != 0:
            print(out[-3000:])
            print("setup: lake build failed")
            return 1
        okb, out = stage_build_impl(log)
        if not okb:
            print(out[-3000:])
            print("setup: harness build failed")
            return 1
    print("setup ok in %.0fs" % (time.time() - t0))
    return 0


def do_replay(pid, cfg, path):
    with open(path) as f:
        rp = json.load(f)
    work = os.path.join(BUILD, "replay-%d" % os.getpid())
    os.makedirs(work, exist_ok=True)
    try:
        with open(os.path.join(BUILD, "replay.log"), "w") as log, Lock("lock"):
            stage_generate(log)
            stage_prove(cfg, log)
            stage_build_impl(log)
        print("replay of %s (kind=%s)" % (path, rp.get("kind")))
        for b in rp.get("broken", []) or []:
            print("  broken obligation:", b)
        seq = rp.get("ops") or []
        if not seq:
            print("  no operation sequence recorded (no-failing-input-found)")
            return 0
        diff, fails, r = replay_seq(rp["engine"], pid, seq, work, "rp")
        with open(r["impl"]) as f:
            impl = f.read().split("\n")
        with open(r["model"]) as f:
            model = f.read().split("\n")
        for i, op in enumerate(seq):
            print("  %-60s impl %s | model %s" % (op, impl[i + 1] if i + 1 < len(impl) else "?", model[i + 1] if i + 1 < len(model) else "?"))
        for fl in fails:
            print("  ORACLE FAIL %s: %s" % (fl["assertion"], fl["detail"]))
        if diff:
            print("  CORRESPONDENCE DIFF at op %r: impl %s model %s" % (diff["op"], diff["impl"], diff["model"]))
        return 1 if (fails or diff) else 0
    finally:
        shutil.rmtree(work, ignore_errors=True)


def main(argv):
    ap = argparse.ArgumentParser()
    ap.add_argument("prop", nargs="?")
    ap.add_argument("--tier", default=os.environ.get("VERIF_TIER", "quick"), choices=["quick", "thorough"])
    ap.add_argument("--replay")
    ap.add_argument("--setup", action="store_true")
    a = ap.parse_args(argv)
    if a.setup:
        return setup()
    pid = a.prop
    if pid not in P.PROPS:
        print("unknown or unclaimed property", pid)
        return 2
    cfg = P.PROPS[pid]
    if a.replay:
        return do_replay(pid, cfg, a.replay)
    try:
        seed = int(os.environ.get("VERIF_SEED", "1"))
    except ValueError:
        seed = 1
    return check(pid, cfg, a.tier, seed)


def check(pid, cfg, tier, seed):
    t0 = time.time()
    work = os.path.join(BUILD, "run-%s-%d" % (pid, os.getpid()))
    os.makedirs(work, exist_ok=True)
    findings = load_findings()
    violations = []   # dicts: kind, assertion, detail, ops, engine, broken
    known_hits = {}
    notes = []
    flakes = []  # harness deaths that the identical run did not reproduce
    try:
        with open(os.path.join(BUILD, "check-%s.log" % pid), "w") as log:
            with Lock("lock"):
                gen = stage_generate(log)
                gen_broken = [] if gen is True else list(gen)
                broken = stage_prove(cfg, log)
                audit_problems, axioms = ([], {})
                if not broken:
                    audit_problems, axioms = stage_audit(cfg, pid, log)
                    if tier == "thorough":
                        audit_problems += stage_leanchecker(cfg, log)
                ok_build, build_out = stage_build_impl(log)
            proof_ok = not broken and not audit_problems and not gen_broken
            discharged = 0 if broken else len([t for t in cfg["theorems"] if t in axioms and set(axioms[t]) <= ALLOWED_AXIOMS])

            results = []
            if not ok_build:
                violations.append({"kind": "build", "assertion": "harness-builds", "engine": None, "ops": [],
                                   "detail": "the harness no longer builds against /repo with -tags verif: " + build_out[-800:]})
            else:
                escalate = not proof_ok
                runs = []
                for e in cfg["engines"]:
                    cdir = os.path.join(ROOT, "corpus", e["name"])
                    for cf in sorted(os.listdir(cdir)) if os.path.isdir(cdir) else []:
                        if cf.endswith(".ops"):  # minimised past failures and hand-written boundary cases run first
                            runs.append((e, os.path.join(cdir, cf), "corpus-" + cf[:-4]))
                    runs.append((e, None, e["name"]))
                for e, corpus_file, tag in runs:
                    budget = e.get(tier, 1) * (e.get("search_factor", 4) if escalate else 1)
                    r = run_engine(e["name"], pid, tier, seed, budget, work, tag, replay=corpus_file)
                    if r["crashed"]:
                        # the harness process died (a panic outside the recovered calls, a timeout): a violation must
                        # be replayable, so the identical run (same seed, same budget) is repeated once; a death that
                        # does not repeat is recorded in the evidence as an infrastructure flake, not reported
                        first = r["crashed"]
                        log.write("harness died, repeating the run: %s\n" % first)
                        r = run_engine(e["name"], pid, tier, seed, budget, work, tag, replay=corpus_file)
                        if not r["crashed"]:
                            flakes.append("%s: harness death not reproduced by the identical run: %s" % (tag, first[:400]))
                    results.append(r)
                    if r["crashed"]:
                        violations.append({"kind": "crash", "assertion": "harness-run", "engine": e["name"], "ops": [],
                                           "detail": r["crashed"]})
                    def spec_pred(c, _a, _e=e["name"]):
                        rr = replay_seq(_e, pid, c, work, "shr")[2]
                        return any(x["assertion"] == _a and "cause=" not in x["detail"] for x in rr.get("spec_failures") or [])
                    for fl in r.get("spec_failures") or []:
                        if cfg.get("spec_assertions") is not None and not any(fl["assertion"].startswith(a) for a in cfg["spec_assertions"]):
                            continue  # belongs to another property served by the same engine
                        k = match_finding(findings, pid, fl["assertion"], fl["detail"])
                        if k:
                            known_hits.setdefault(k["id"], k)
                            continue
                        small = ddmin(fl.get("ops") or [], lambda c, _a=fl["assertion"]: spec_pred(c, _a))
                        rr = replay_seq(e["name"], pid, small, work, "shr")[2]
                        det = next((x["detail"] for x in rr.get("spec_failures") or [] if x["assertion"] == fl["assertion"]), fl["detail"])
                        violations.append({"kind": "oracle", "assertion": fl["assertion"], "engine": e["name"], "ops": small,
                                           "detail": "the model's view (which the implementation reproduces on this sequence) "
                                                     "disagrees with the reference rules: " + det})
                    for fl in (r["stats"] or {}).get("failures") or []:
                        seq = fl.get("ops") or []
                        k = match_finding(findings, pid, fl["assertion"], fl["detail"])
                        if k:
                            known_hits.setdefault(k["id"], k)
                            continue
                        small = ddmin(seq, lambda c, _a=fl["assertion"], _e=e["name"]: any(
                            x["assertion"] == _a for x in replay_seq(_e, pid, c, work, "shr")[1]))
                        _, fails2, _ = replay_seq(e["name"], pid, small, work, "shr")
                        det = next((x["detail"] for x in fails2 if x["assertion"] == fl["assertion"]), fl["detail"])
                        k = match_finding(findings, pid, fl["assertion"], det + "\n" + "\n".join(small))
                        if k:
                            known_hits.setdefault(k["id"], k)
                            continue
                        violations.append({"kind": "oracle", "assertion": fl["assertion"], "engine": e["name"],
                                           "ops": small, "detail": det})
                    if r["diff"]:
                        d = r["diff"]
                        small = ddmin(d["seq"], lambda c, _e=e["name"]: replay_seq(_e, pid, c, work, "shr")[0] is not None)
                        d2, fails2, _ = replay_seq(e["name"], pid, small, work, "shr")
                        d2 = d2 or d
                        if fails2:
                            fl = fails2[0]
                            k = match_finding(findings, pid, fl["assertion"], fl["detail"] + "\n" + "\n".join(small))
                            if k:
                                known_hits.setdefault(k["id"], k)
                            else:
                                violations.append({"kind": "oracle", "assertion": fl["assertion"], "engine": e["name"],
                                                   "ops": small, "detail": fl["detail"]})
                        elif (refdiff := impl_vs_reference(e["name"], pid, small, work)):
                            violations.append({"kind": "oracle", "assertion": "implementation-view-follows-reference-rules",
                                               "engine": e["name"], "ops": small, "detail": refdiff})
                        else:
                            violations.append({"kind": "correspondence", "assertion": "model-equals-implementation",
                                               "engine": e["name"], "ops": small, "no_input": True,
                                               "detail": "op %r: implementation %s, model %s" % (d2["op"], d2["impl"], d2["model"])})
            have_witness = any(v["kind"] == "oracle" for v in violations)
            if not proof_ok:
                what = [("%s (%s:%d) %s" % (b["decl"], b["file"], b["line"], b["message"])) for b in broken] + audit_problems + gen_broken
                if not have_witness:
                    violations.append({"kind": "proof", "assertion": "theorems-check", "engine": None, "ops": [],
                                       "no_input": True, "broken": what,
                                       "detail": "proof obligations no longer check: " + "; ".join(what)[:1500]})
                else:
                    notes.append("proof obligations also broken: " + "; ".join(what)[:1500])

        # ------------------------------------------------------------- verdict
        # one line per LISTED finding of this property (the file is never extended at run time); a finding the run
        # did not meet again (its generated histories differ from seed to seed) says so
        for k in findings:
            if k.get("status") != "known" or k.get("property") != pid:
                continue
            hit = k["id"] in known_hits
            print("KNOWN-FINDING: property=%s %s%s" % (pid, k["what"], "" if hit else " [listed; not met by this run]"))
        rc = 0
        # one VIOLATION line per distinct (kind, assertion)
        seen = set()
        nviol = 0
        # a concrete witness outranks no-input reports
        violations.sort(key=lambda v: 0 if v["kind"] == "oracle" else 1)
        for v in violations:
            key = (v["kind"], v["assertion"])
            if key in seen:
                continue
            seen.add(key)
            if have_witness and v.get("no_input") and v["kind"] == "correspondence":
                # the correspondence break is explained by the concrete witness already reported
                continue
            nviol += 1
            path = write_replay(pid, "%d-%d" % (seed, nviol), {
                "property": pid, "kind": v["kind"], "assertion": v["assertion"], "engine": v["engine"],
                "ops": v["ops"], "detail": v["detail"], "broken": v.get("broken"), "notes": notes,
                "tier": tier, "seed": seed,
                "how_to_replay": "./check %s --replay <this file>" % pid})
            suffix = " no-failing-input-found" if v.get("no_input") else ""
            print("VIOLATION property=%s replay=%s%s" % (pid, path, suffix))
            print("  %s/%s: %s" % (v["kind"], v["assertion"], v["detail"][:600]))
            rc = 1

        # ------------------------------------------------------------- evidence
        evals = sum((r["stats"] or {}).get("ops", 0) for r in results)
        dn = sum((r["stats"] or {}).get("distinct_nontrivial", 0) for r in results)
        samples = []
        hist = {}
        for r in results:
            st = r["stats"] or {}
            samples += st.get("samples") or []
            for k, v in (st.get("histogram") or {}).items():
                hist["%s/%s" % (r["engine"], k)] = v
        if not samples:
            samples = ["theorem " + t for t in cfg["theorems"][:4]]
        ev = {
            "property_id": pid, "tier": tier, "seed": seed, "level": cfg.get("level", "proof"),
            "wall_s": round(time.time() - t0, 2), "violations": nviol,
            "coverage": {
                "obligations": len(cfg["theorems"]), "discharged": discharged,
                "checker_cmd": "cd lean && lake build %s && lake env lean <audit: #print axioms of each theorem>%s" % (
                    " ".join(cfg["lean_modules"]), " && lake env leanchecker <module>" if tier == "thorough" else ""),
                "trusted_base": P.TRUSTED_COMMON + cfg.get("trusted", []),
                "theorems": {t: axioms.get(t) for t in cfg["theorems"]},
                "generated_facts": getattr(sys.modules.get("generate"), "LAST_FACTS", None),
                "evaluations": evals, "distinct_nontrivial": dn,
                "rule": cfg.get("rule", ""),
                "samples": samples[:12],
                "traces_validated_against_impl": sum((r["stats"] or {}).get("sequences", 0) for r in results),
                "oracle_evaluations": sum((r["stats"] or {}).get("oracle_evaluations", 0) for r in results),
                "input_distribution": hist,
                "correspondence_streams": [{"engine": r["engine"], "lines": (r["stats"] or {}).get("ops", 0),
                                            "first_difference": r["diff"] and r["diff"]["op"]} for r in results],
                "known_findings_hit": sorted(known_hits.keys()),
                "harness_deaths_not_reproduced": flakes,
                "exhaustive": False,
            },
            "assumptions": cfg.get("assumptions", []),
        }
        write_evidence(pid, ev)
        if rc == 0:
            print("OK property=%s tier=%s seed=%d theorems=%d/%d ops=%d distinct=%d wall=%.1fs" % (
                pid, tier, seed, discharged, len(cfg["theorems"]), evals, dn, time.time() - t0))
        return rc
    finally:
        shutil.rmtree(work, ignore_errors=True)
