#!/usr/bin/env python3
"""Debug aid: shortest op sequences per failed reference assertion in a model output (## FAIL ...)."""
import sys
ops=open(sys.argv[1]).read().split("\n"); m=open(sys.argv[2]).read().split("\n")
maxshow=int(sys.argv[3]) if len(sys.argv)>3 else 1
seen={}; cnt={}
seqstart=0
for i,op in enumerate(ops):
    if op=="reset": seqstart=i; continue
    if i<len(m) and "## FAIL" in m[i]:
        for f in m[i].split("## FAIL ")[1].split(" "):
            name=f.split("(")[0].split("@")[0]
            cnt[name]=cnt.get(name,0)+1
            seen.setdefault(name,[]).append((i-seqstart, ops[seqstart+1:i+1], f))
print(cnt)
for k,v in seen.items():
    v.sort(key=lambda x:x[0])
    for n,seq,f in v[:maxshow]:
        print("=====",k,f)
        for l in seq: print("   ",l)
