#!/usr/bin/env python3
"""Debug aid: minimise (ddmin, model only) sequences whose model view disagrees with the reference, group by shape."""
import subprocess, sys, collections
sys.path.insert(0, "/verif/lib")
from pipeline import ddmin, MODEL
ops=open(sys.argv[1]).read().split("\n"); m=open(sys.argv[2]).read().split("\n")
assertion=sys.argv[3]; limit=int(sys.argv[4]) if len(sys.argv)>4 else 40
def fails(seq):
    p=subprocess.run([MODEL],input="reset\n"+"\n".join(seq)+"\n",capture_output=True,text=True)
    return any(("## FAIL" in l and assertion in l) for l in p.stdout.split("\n"))
seqs=[]; seqstart=0; done=set()
for i,op in enumerate(ops):
    if op=="reset": seqstart=i; continue
    if seqstart in done: continue
    if i<len(m) and "## FAIL" in m[i] and assertion in m[i]:
        done.add(seqstart); seqs.append(ops[seqstart+1:i+1])
shapes=collections.OrderedDict()
for s in seqs[:limit]:
    small=ddmin(s,fails,200)
    # one more pass removing single ops
    changed=True
    while changed:
        changed=False
        for k in range(len(small)):
            c=small[:k]+small[k+1:]
            if c and fails(c): small=c; changed=True; break
    shape=" ; ".join(" ".join(x.split()[1:2]+[t.split("=")[0]+"="+t.split("=")[1] for t in x.split()[2:] if t.split("=")[0] in ("typ","red")]) for x in small)
    shapes.setdefault(shape,[]).append(small)
for sh,v in shapes.items():
    print(len(v),sh)
    for l in v[0]: print("      ",l)
