#!/usr/bin/env python3
"""Show the first differing line of each sequence, field by field (debug aid)."""
import sys
ops=open(sys.argv[1]).read().split("\n"); a=open(sys.argv[2]).read().split("\n"); b=open(sys.argv[3]).read().split("\n")
limit=int(sys.argv[4]) if len(sys.argv)>4 else 5
shown=0; seqstart=0; bad=False; nseq=0; nbad=0
for i,op in enumerate(ops):
    if op=="reset":
        seqstart=i; bad=False; nseq+=1; continue
    if bad or i>=len(a) or i>=len(b): continue
    if a[i]!=b[i]:
        bad=True; nbad+=1
        if shown<limit:
            shown+=1
            print("=== seq starting at line",seqstart+1,"first diff at",i+1)
            for k in range(seqstart+1,i+1): print("   ",ops[k])
            fa=a[i].split(" "); fb=b[i].split(" ")
            for x,y in zip(fa,fb):
                if x!=y: print("  impl :",x); print("  model:",y)
            if len(fa)!=len(fb): print("  impl :",a[i]); print("  model:",b[i])
print("sequences",nseq,"with diff",nbad)
