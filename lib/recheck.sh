#!/bin/bash
# usage: lib/recheck.sh <seeded-name> <check>...   (env RV=<verif copy>, RR=<clean repo worktree>)
# Re-runs strengthened checks against a kept seeded change in a PRIVATE copy (never /repo), appending
# "recheck Cxx: ..." lines to seeded/<name>/confirm.log. The patch (patch.rebased.diff when present) is applied
# to $RR and undone afterwards.
N=$1; shift
RV=${RV:-/tmp/sv/verif2}; RR=${RR:-/tmp/sv/clean}
D=/verif/seeded/$N
P=$D/patch.diff; [ -f $D/patch.rebased.diff ] && P=$D/patch.rebased.diff
[ -z "$(git -C $RR status --short)" ] || { echo "$RR not clean"; exit 2; }
git -C $RR apply $P || { echo "recheck: patch does not apply" >> $D/confirm.log; exit 2; }
for c in "$@"; do
  out=$(cd $RV && VERIF_REPO=$RR ./check $c --tier quick 2>&1 | grep -E "^(OK|VIOLATION|KNOWN-FINDING|  [a-z])" | cut -c1-400 | tr '\n' '|')
  echo "recheck $c: $out" | tee -a $D/confirm.log | cut -c1-300
done
git -C $RR checkout -- . ; git -C $RR clean -fdq
