#!/bin/bash
# usage: lib/recheck.sh <seeded-name> <check>...   (env RV=<verif copy>, RR=<clean repo worktree>)
# Re-runs strengthened checks against a kept seeded change in a PRIVATE copy (never /repo), appending
# "recheck Cxx: ..." lines to seeded/<name>/confirm.log. The patch (patch.rebased.diff when present) is applied
# to $RR and undone afterwards.
N=$1; shift
RV=${RV:-/tmp/sv/verif2}; RR=${RR:-/tmp/sv/clean}
D=/verif/seeded/$N
P=$D/patch.diff; [ -f $D/patch.rebased.diff ] && P=$D/patch.rebased.diff
[ -z "$(git -C $RR status --short)" ] || { echo "$RR not clean"; exit 2; }
if ! git -C $RR apply $P 2>/dev/null; then
  # the tree moved on (hook points, fix commits): rebase the change by a 3-way merge and keep the rebased diff
  if git -C $RR apply --3way $D/patch.diff >/dev/null 2>&1 && ! git -C $RR diff --name-only --diff-filter=U | grep -q .; then
    git -C $RR diff HEAD > $D/patch.rebased.diff
    (cd $RR && GOFLAGS=-mod=mod GOPROXY=off go build ./... >/dev/null 2>&1) || { echo "recheck: rebased patch does not build" >> $D/confirm.log; git -C $RR reset -q --hard; exit 2; }
    echo "recheck: patch rebased onto $(git -C $RR rev-parse --short HEAD) (patch.rebased.diff)" >> $D/confirm.log
    git -C $RR reset -q   # keep the working tree change, drop the index state of --3way
  else
    git -C $RR reset -q --hard; git -C $RR clean -fdq
    echo "recheck: patch does not apply to $(git -C $RR rev-parse --short HEAD)" >> $D/confirm.log; exit 2
  fi
fi
for c in "$@"; do
  o=$(cd $RV && VERIF_REPO=$RR ./check $c --tier quick 2>&1 | grep -E "^(OK|VIOLATION|KNOWN-FINDING|  [a-z])" | cut -c1-400)
  out=$( (echo "$o" | grep -E "^(VIOLATION|OK)" | head -2; echo "$o" | grep -E "^  " | head -2; echo "known-findings-printed=$(echo "$o" | grep -c "^KNOWN")") | tr '\n' '|')
  echo "recheck $c: $out" | tee -a $D/confirm.log | cut -c1-300
done
git -C $RR reset -q --hard; git -C $RR clean -fdq
