#!/bin/sh
# usage: lib/mkws.sh <name>   -> /tmp/b/<name>/{verif,repo}: scratch copy of /verif + git worktree of /repo (branch b-<name>)
set -e
N="$1"; W=/tmp/b/$N
mkdir -p "$W"
git -C /repo worktree add -q -b "b-$N" "$W/repo" HEAD
rsync -a --exclude .git --exclude replays --exclude ".build/run-*" /verif/ "$W/verif/" || [ $? = 24 ]
mkdir -p "$W/verif/replays"
echo "$W"
