#!/usr/bin/env python3
"""Unchanged-tree sweep of one engine over several seeds (model/implementation diff + oracle failures).
usage: lib/sweep.py <engine> <prop> <tier> <seed>... ; builds what it needs in this checkout."""
import json, os, subprocess, sys, tempfile
ROOT = os.path.dirname(os.path.dirname(os.path.abspath(__file__)))
sys.path.insert(0, os.path.join(ROOT, "lib"))
import pipeline as P
eng, prop, tier = sys.argv[1:4]
seeds = sys.argv[4:]
with open(os.path.join(P.BUILD if os.path.isdir(P.BUILD) or not os.makedirs(P.BUILD) else P.BUILD, "sweep.log"), "w") as log:
    P.stage_generate(log)
    rc, out = P.run(["lake", "build", "neofs_model"], cwd=P.LEAN)
    if rc: print(out[-2000:]); sys.exit(2)
    ok, out = P.stage_build_impl(log)
    if not ok: print(out[-2000:]); sys.exit(2)
bad = 0
for seed in seeds:
    work = tempfile.mkdtemp(prefix="sweep-", dir=P.BUILD)
    r = P.run_engine(eng, prop, tier, int(seed), 1, work, eng)
    st = r["stats"] or {}
    fails = st.get("failures") or []
    print("seed", seed, "ops", st.get("ops"), "seqs", st.get("sequences"), "diff", bool(r["diff"]), "oracle failures", len(fails), "crashed", r["crashed"])
    if r["diff"]:
        bad += 1
        print("  first diff op:", r["diff"]["op"]); print("  impl :", r["diff"]["impl"][:600]); print("  model:", r["diff"]["model"][:600])
        print("  seq:"); [print("    " + l) for l in r["diff"]["seq"][-40:]]
    for f in (r.get("spec_failures") or []):
        if "cause=" in f["detail"]:
            continue
        bad += 1
        print("  REFERENCE", f["assertion"], f["detail"][:300]); [print("      " + l) for l in f["ops"][-40:]]
    sigs = {}
    for f in fails:
        sigs.setdefault(f["assertion"], []).append(f)
    for a, fs in sigs.items():
        bad += 1
        print("  ORACLE", a, len(fs), "e.g.", fs[0]["detail"][:300]); [print("      " + l) for l in (fs[0].get("ops") or fs[0].get("Ops") or [])[-30:]]
    subprocess.run(["rm", "-rf", work])
print("SWEEP", "CLEAN" if not bad else "FOUND %d" % bad)
