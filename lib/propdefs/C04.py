ENGINES.append({"name": "smerge", "path": "harness/eng_smerge.go", "serves_properties": ["C04"],
                "kind_free_text": "MergeSearchResults / calcMaxUniqueSearchResults / CalculateCursor / cursor decoding of PreprocessSearchQuery on "
                                  "generated result sets, and a real StorageEngine over 1-4 real shards with overlapping copies walked page by page "
                                  "(every cursor fed back through PreprocessSearchQuery) against Model/SearchMerge.lean and a single-shard engine over the union"})

prop("C04",
     theorems=["NeoFS.SearchMerge.take_of_spec", "NeoFS.SearchMerge.selectMin_spec", "NeoFS.SearchMerge.advance_spec",
               "NeoFS.SearchMerge.moreAtLimit_iff", "NeoFS.SearchMerge.loop_spec", "NeoFS.SearchMerge.calcMax_spec",
               "NeoFS.SearchMerge.merge_multi", "NeoFS.SearchMerge.merge_eq_union_search", "NeoFS.SearchMerge.merge_more_realistic",
               "NeoFS.SearchMerge.union_exists", "NeoFS.SearchMerge.merge_order_independent", "NeoFS.SearchMerge.hexEnc_order", "NeoFS.SearchMerge.uuidStr_order",
               "NeoFS.SearchMerge.uuidParse_uuidStr", "NeoFS.SearchMerge.itemOf_valid", "NeoFS.SearchMerge.merge_order_eq_index_order",
               "NeoFS.SearchMerge.cursor_roundtrip", "NeoFS.SearchMerge.old_merge_order_counterexample",
               "NeoFS.SearchMerge.old_merge_result_counterexample", "NeoFS.SearchMerge.old_associate_cursor_counterexample",
               "NeoFS.SearchMerge.old_checksum_cursor_counterexample"],
     engines=[dict(name="smerge", quick=1, thorough=1)],
     claim="Lean proves three things about the code as it is after three small fixes (see note). (1) MergeSearchResults with "
           "calcMaxUniqueSearchResults, modelled loop by loop: for ANY number of result sets of ANY lengths and ANY limit, if every set is strictly "
           "sorted in the order the merge itself applies to the attribute kind (numeric via compareIntStrings for integer matchers, decoded id / owner "
           "bytes for parent, first part, associated object and owner, byte-wise string order otherwise; ties by object id), the comparison does not "
           "fail on the items and equal ids mean equal items, then the result is exactly the first lim elements of THE strictly sorted duplicate-free "
           "list of all items (shown to exist and to be unique) - no duplicate, no omission, independent of the order of the sets - and 'more' is "
           "reported iff the union has more than lim items or an input flag is set (exact formula also for unrealistic flags); proved by invariants of "
           "the selection pass, the duplicate cut, the limit scan and the outer loop. (2) For EVERY primary attribute kind (id listing, integer user "
           "attributes, owner, parent, first part, associated object, payload checksum, split id, plain strings incl. version/type) that order "
           "coincides with the order of the single-shard index keys: integers by C05 (encode_order, compare_strings_numeric), lower-case hex and the "
           "canonical UUID string are proved order preserving, plain values by the key-order lemma for values without the 0x00 delimiter, Base58 "
           "values because the merge decodes them. (3) cursor_roundtrip: for every kind CalculateCursor(filter, item) is byte for byte the index key "
           "of the item's entry, and the cursor half of PreprocessSearchQuery accepts it and seeks to exactly that key. Decide-checked counterexample "
           "theorems keep the behaviour BEFORE the fixes (associated-object ids 57/58: merged page out of order and an object lost with pages of one; "
           "checksum cursor with the id written over the hash: rejected). Tied to the code by a differential run: the real MergeSearchResults, "
           "calcMaxUniqueSearchResults, CalculateCursor and PreprocessSearchQuery on generated sorted and malformed inputs, and a real StorageEngine "
           "over 1-4 real shards with overlapping copies whose page chains (12 attribute kinds, page sizes 1..N+1, equality and integer-threshold "
           "filters, every cursor fed back through the real PreprocessSearchQuery) must equal the model's and those of a single-shard engine over the union.",
     note="NOT one end-to-end theorem: the composition 'engine page = page of one shard over the union' (shard pages are sorted prefixes, prefix-merge, "
          "cursor of the merged page) is exercised by the run and follows informally from (1)-(3), but is not stated as a single Lean theorem. A single "
          "shard's search is taken as given (C03): 'the matching index entries strictly after the seek key in key order, the first count of them, more "
          "iff another match exists' - validated against real shards by the run. ASSUMED codec law: Base58 decode(encode r) = r for stored owners/ids "
          "(hypothesis B58Law of (2)/(3); the model's concrete codec satisfies it on decide-checked examples and the run exercises mr-tron/base58 on all "
          "generated values); hex and UUID round trips and order are proved for the model's codecs. Not modelled: the owner checksum test of "
          "user.ID.DecodeString (runs use valid owners), uuid.Parse's non-canonical forms, uint16 truncation of lengths >= 65536, the panic of "
          "Attributes[0] on attribute-less items, AutoMatch boundary filters (+-(2^256-1)) beyond the 'match all' one, shard errors skipped by the "
          "engine. Server.ProcessSearch (multi-node merge with remote nodes) is NOT driven: it calls the same MergeSearchResults/CalculateCursor "
          "(with firstAttr empty for STRING_EQUAL, the byId kind of the theorems); only those functions are covered. Three genuine defects were "
          "replayed on the real engine and repaired by fix commits: CalculateCursor for payload checksum/homomorphic hash wrote the id over the hash "
          "(cursor rejected by the next request); CalculateCursor kept the Base58 string for the associated-object attribute (cursor not an index key: "
          "pages repeat or skip); MergeSearchResults compared associated-object ids as Base58 strings (wrong order, lost objects). Candidate refuted: "
          "comparing payload checksums as hex STRINGS is consistent with the index (hexEnc_order).",
     rule="40 (quick) / 1500 (thorough) direct sequences of 25 sorted-set merges (1-4 sets, overlapping items, 13 attribute kinds incl. numeric strings "
          "of different lengths and signs, Base58 ids of different string lengths, lim 1..N+2, realistic / arbitrary / nil more-flags; oracle: first lim "
          "items of the sorted duplicate-free union by the INDEX order, more iff something left), 8 malformed merges (unsorted, incoherent, invalid "
          "values, lim 0, no sets) and 12 cursor cases (CalculateCursor on valid and malformed values for 14 attributes x 4 operation classes, then "
          "PreprocessSearchQuery on the returned cursor and on damaged ones); 36 / 1500 worlds: real engine with 1-4 shards, 3-11 objects with owner, "
          "checksum, split id, parent, first, associate, numeric and plain user attributes, type and version, each on a random non-empty subset of the "
          "shards, then for each of 12 kinds 2-4 page sizes with a match-all filter plus an equality or integer-threshold walk; oracles: every "
          "returned cursor accepted, no duplicate in the chain, pages equal to those of a single-shard engine over the union; non-trivial = multi-shard "
          "world with an object on several shards and more matches than the page size; distinct by kind+filter+size+result",
     trusted=["Model/SearchMerge.lean is a hand transcription of MergeSearchResults, calcMaxUniqueSearchResults, CalculateCursor, the cursor half of "
              "PreprocessSearchQuery and StorageEngine.Search; tied by the line-by-line correspondence run",
              "mr-tron/base58, encoding/hex, google/uuid (modelled by b58Encode/b58Decode, hexEnc/hexDec, uuidStr/uuidParse)"],
     assumptions=["a shard's search result is the sorted list of matching index entries after the cursor, first count, plus a more flag (property C03)",
                  "Base58 decode(encode r) = r for every stored owner / object id value (B58Law)",
                  "copies of one object carry the same attributes (equal ids mean equal items)",
                  "result set lengths stay below 2^16; index keys are not longer than MaxHeaderLen (cursor length limit)"])
