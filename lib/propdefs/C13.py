prop("C13",
     theorems=["NeoFS.FSTree.faults_fail_cleanly", "NeoFS.FSTree.step_safe", "NeoFS.FSTree.visible_is_exact",
               "NeoFS.FSTree.never_blocked", "NeoFS.FSTree.earlier_objects_intact", "NeoFS.FSTree.ok_means_readable",
               "NeoFS.FSTree.pending_means_readable", "NeoFS.FSTree.unaffected_succeed", "NeoFS.FSTree.unaffected_batch_succeeds",
               "NeoFS.FSTree.panic_before_fix", "NeoFS.FSTree.hang_before_fix",
               "NeoFS.FSTree.sbWrite_spec", "NeoFS.FSTree.writeCombined_spec", "NeoFS.FSTree.writeFile_spec",
               "NeoFS.FSTree.writeBatch_spec", "NeoFS.FSTree.tick_spec", "NeoFS.FSTree.put_clean",
               "NeoFS.FSTree.generic_put_safe", "NeoFS.FSTree.genericWrite_spec"],
     engines=[dict(name="fstree", quick=1, thorough=1)],
     claim="The O_TMPFILE writer is modelled call by call (open O_TMPFILE / writev / linkat / fdatasync / close, the syncBatch "
           "bookkeeping cnt/size/err/ready, batchLock, the rotation test, the batch timer); every call consults an oracle "
           "Nat -> Option Fault (fail, possibly after a partial write; or stop the process). Lean proves for EVERY oracle (any "
           "number of faults at any calls) and EVERY schedule of atomic steps (the lock-protected section of a writeCombinedFile "
           "caller, the timer, writeFile, PutBatch, Delete - i.e. every interleaving of concurrent Puts at the granularity of the "
           "lock): the writer never reaches the panic state (double close of the ready channel), batchLock is free after every step "
           "so no caller blocks (never_blocked), every name on disk reads - through Get and GetStream - as exactly one payload "
           "offered for that address, never partial or foreign bytes (faults_fail_cleanly + visible_is_exact), no step removes or "
           "alters a readable object (earlier_objects_intact), a Put that returns ok leaves its address readable, with the bytes "
           "just written if the address was new (ok_means_readable), and once the oracle injects nothing any more every Put and "
           "PutBatch in any reachable state returns ok (unaffected_succeed). Tied to the real writers by in-process failure "
           "injection at every system call.",
     note="Two genuine defects confirmed through the engine and repaired: 1e7cef3 (the unparenthesised rotation test "
          "`err == nil && cnt >= limit || size >= sizeLimit` ran intSync a second time after a failed write that had crossed the "
          "size limit: panic 'close of closed channel', node process dies) and 26a7c4c (a failing open of the batch file returned "
          "with batchLock held: every later combined write blocked forever). panic_before_fix / hang_before_fix are kernel-checked "
          "witnesses in the model of the old code (flags precFixed/unlockFixed off); the theorems are about the repaired code. "
          "The portable (rename) writer has its own safety theorem for every oracle (generic_put_safe: names stay exact, other "
          "addresses untouched, ok means readable with the new bytes); its liveness is NOT proved and does not hold in general: "
          "after five leftover p#i files of one address (five failed writes) its Put fails until CleanUpTmp. Scheduling below the lock granularity, the Go runtime, timers and the kernel "
          "are driven, not proved: the run uses sequential Puts and small groups of concurrent Puts, not 300 writers. In-process "
          "injection makes the call report failure after it ran (a failed linkat is undone by unlink, a failed open closes the "
          "descriptor); ENOSPC-specific cleanup of the portable writer and mkdir failures are not modelled.",
     rule="70 (quick) / 3000 (thorough) seeded histories over 8 addresses on configurations with count limit 2/3/128 and size limit "
          "150/400/100000 (so rotation by count and by size happens within a few writes); every put / PutBatch(1..4, written in "
          "line order) / delete carries with probability 1/2 one or two injected failures at call index 0..10 of that op (open, "
          "writev, linkat, close, next member ...), interleaved with fault-free and concurrent puts and reads; every history ends "
          "with a fault-free put + read-back of all 8 addresses (unaffected writes succeed). Each op runs under recover() and a 4 s "
          "watchdog: panic and hang are observations. After EVERY op: result, number of system calls made, full dump. Oracle: no "
          "panic, no hang, every visible object has exactly its address's bytes, every acknowledged object stays listed. "
          "non-trivial = history > 4 ops; distinct by history",
     trusted=["Model/FSTree.lean writers are a hand transcription of fstree_write_linux.go, tied by the correspondence run "
              "(result, system-call count and dump after every op)",
              "atomicity of the sections under batchLock / syncBatch.lock (Go mutexes)"],
     assumptions=["a failing system call has no effect other than a possibly partial write",
                  "fdatasync/close failures do not change names or bytes"])
