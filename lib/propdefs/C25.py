prop("C25",
     theorems=["NeoFS.Put.put_ok_implies_acks", "NeoFS.Put.put_ok_implies_policy_copies", "NeoFS.Put.put_fails_when_impossible",
               "NeoFS.Put.put_ok_capped", "NeoFS.Put.broadcast_ok_implies_acks", "NeoFS.Put.ecpart_ok_implies_ack", "NeoFS.Put.applyEC_sound",
               "NeoFS.Put.handleREP_sound", "NeoFS.Put.duplicate_in_list_counts_twice",
               "NeoFS.Put.applyEC_node_holds_one_part"],
     engines=[dict(name="put", quick=1, thorough=1)],
     lean_modules=["NeoFS.Props.C25"],
     claim="Lean theorems over Model/Put.lean (handleREPRule/repProgress, iterateNodesForObject, the rule loop of saveObject with replica "
           "limits, distributeECPart, applyECRule/ecProgress) for EVERY placement (any number of REP/EC rules, node lists that may share nodes "
           "and contain the local node anywhere, duplicate-free inside one list), EVERY answer oracle, EVERY completion order of the parallel "
           "sends of a group and EVERY interleaving of the EC part threads' critical sections: (1) a successful PUT of a regular object without "
           "a total cap has, for every REP rule, at least the required number (the replica limit under an initial policy) of distinct "
           "acknowledging nodes of that rule's own list, a node shared by two lists counts once per list, and every EC rule in force has every "
           "part acknowledged by a node of its list with different parts on different nodes (put_ok_implies_acks, loop invariants "
           "collect_inv/runGroup_inv/handleREP_sound, thread invariant ECInv/applyEC_sound); (2) conversely the verdict is not ok whenever some "
           "REP list lacks enough nodes that would acknowledge (put_fails_when_impossible); (3) tombstone/lock/link objects: success means every "
           "REP list has its copies and every EC list as many copies as the rule has parts (broadcast_ok_implies_acks); (4) a ready EC part: "
           "success means a node of its rule's list acknowledged it (ecpart_ok_implies_ack); (5) the no-duplicate-inside-a-list hypothesis is "
           "necessary (duplicate_in_list_counts_twice, decide); (6) under a total cap (MaxReplicas > 0, any PreferLocal visiting order) success means: "
           "every REP rule's counted copies are at most its limit and at most the distinct acknowledging nodes of its own list, acknowledgements "
           "<= counted copies, counted copies + applied EC rules <= MaxReplicas, and = MaxReplicas whenever the limits in force add up to it "
           "and EC limits are 0/1 (put_ok_capped, invariant CapInv over the rule loop). The model is tied to the real distributedTarget.saveObject (real goroutines, "
           "scripted nodes behind the real local-storage and replication-transport interfaces) by a line-by-line differential run: verdict "
           "class, asked nodes, acknowledging nodes and fully placed EC rules; the property's own oracle is evaluated on the recorded "
           "acknowledgements. NOT proved, only exercised by the run and its oracle: that the PreferLocal order is the one the code computes "
           "(modelled as the insertion-sort behaviour of slices.SortFunc under the code's inconsistent comparator; the capped theorem holds "
           "for whatever order) and the schedule-independence of the EC verdict (the driver runs a seeded schedule, "
           "the implementation its own). (7) In ANY run of applyECRule, successful or not, under every interleaving, a node "
           "acknowledges parts of one rule for one part only (applyEC_node_holds_one_part). The interleavings of the EC part routines "
           "are FORCED on the real ecProgress by op ecrace: hook points (verifhook.PointN) before every canTryNode and at the start of "
           "applyECRule let the engine (a) make the refusing first nodes of several parts answer at the same moment and (b) hold the "
           "first routine that is about to reserve node #i until a second routine goes for the same node, then release both at one "
           "instant; the case is repeated (30-60 trials per op), every trial must give the model's verdict (the model runs the "
           "lock-step schedule; any other verdict is printed as interleaving-dependent) and meet the oracles "
           "ec-rule-parts-on-distinct-nodes-of-its-list and ec-node-reserved-by-one-part-of-a-rule. Three genuine defects were found by this check and repaired (fix: commits): index panic in REP+EC "
           "containers, repeated EC rules placed on the first equal rule's nodes / skipped, failed EC rule tolerated against the wrong suffix.",
     note="Trusted: Lean kernel; hand model Model/Put.lean tied by correspondence only; answers are a function of (object, node) — every real "
          "execution is one because a node is asked at most once per object (oracle assertion node-asked-once-per-object); each send's result is "
          "published atomically under nodeResultsMtx and groups are separated by wg.Wait (read in the code, the Go memory model is trusted); "
          "localOnly requests, meta-signature collection (metaCollection), post-placement replication and payload content validation "
          "are outside the model; the netmap's placement vectors are assumed duplicate-free inside one vector.",
     rule="quick: ~700 REP placements (1-3 vectors x 1-6 nodes of a 7-node universe x copies 1-4 x 4 object types x local node anywhere, every 5th "
          "with ALL 2^n failure tables of the nodes in use), ~500 EC / REP+EC / broadcast-in-EC-container / ready-EC-part cases (5 rules, repeated "
          "rules, lists shorter than the rule), ~600 initial-policy cases (limits, MaxReplicas, PreferLocal), 80 EC cases x 40 trials with forced contention on reserve nodes "
          "(two or more first nodes refusing at once) + corpus/put/ec-race.ops; thorough x25; non-trivial = at "
          "least two sends and at least one failing node; distinct by op",
     trusted=["Model/Put.lean is a hand transcription of distributed.go / ec.go (tied by the correspondence run through export_verif_c25.go)",
              "slices.SortFunc sorts <= 12 elements by insertion sort (PreferLocal rule order)"],
     assumptions=["placement vectors contain no node twice (shown necessary by duplicate_in_list_counts_twice)",
                  "ReplicaLimits is empty or has one entry per rule (SDK InitialPlacementPolicy.verify)"])

ENGINES.append({"name": "put", "path": "harness/eng_put.go", "serves_properties": ["C25"],
                "kind_free_text": "runs the real distributedTarget.saveObject with scripted nodes (local storage + replication transport fakes) against Model/Put.lean; oracle on recorded acknowledgements"})
