# extension of C22 (defined in lib/props.py): the node order USED by the policer when it re-creates a lost EC part
# (Props/C22b.lean, op `recreate` of the policer engine)
_p = PROPS["C22"]
_p["theorems"] = _p["theorems"] + [
    "NeoFS.Policer.partSeq_perm", "NeoFS.Policer.partSeq_head", "NeoFS.Policer.checkParts_missing",
    "NeoFS.Policer.recreate_tasks_follow_part_order", "NeoFS.Policer.recreated_part_offered_to_every_node_once",
    "NeoFS.Policer.recreated_part_starts_at_own_node", "NeoFS.Policer.recreated_parts_start_at_distinct_nodes",
    "NeoFS.Policer.recreated_parts_once"]
_p["lean_modules"] = _p["lean_modules"] + ["NeoFS.Props.C22b"]
_p["engines"] = _p["engines"] + [dict(name="policer", quick=1, thorough=1)]
_p["claim"] += (" EXTENSION (Props/C22b.lean, Model/Policer.lean section checkECParts/recreateECParts): the order USED when the policer "
                "re-creates a lost part. Model of the sibling-part health check of a local EC part (HEAD loop over every part's node sequence, "
                "maintenance = skip, payload loop, the 'too many parts unavailable' bound) and of recreateECPart. Proved for EVERY script of node "
                "answers, node list, rule and local part: every task handed to the replicator is for a lost part other than the local one and "
                "lists the nodes in that part's own node order (recreate_tasks_follow_part_order), which is a rearrangement of the rule's node "
                "list - every node exactly once (partSeq_perm, recreated_part_offered_to_every_node_once) - starting at the node with the "
                "part's index when nodes >= parts (partSeq_head, recreated_part_starts_at_own_node); distinct re-created parts start at distinct "
                "nodes (recreated_parts_start_at_distinct_nodes); exactly the lost parts are re-created, each once (checkParts_missing, "
                "recreated_parts_once). Tied to the REAL processObject -> checkECParts -> recreateECParts -> recreateECPart -> REAL "
                "Replicator.HandleTask (real storage engine, recording remote fakes) on really split objects: per case the HEAD and payload "
                "requests in order, every re-creation task with its node order and successes, and the fate of the local part; the oracle "
                "recounts the property's sentences from the recorded node orders and checks that a re-created part carries the lost payload.")
_p["note"] += (" Extension: a genuine defect was found by this tie and repaired (fix commit): recreateECParts indexed the placement lists with the "
               "EC rule index alone, so with REP rules before the EC rules a re-created part was offered to the nodes of a wrong list. "
               "Not modelled: ErrObjectAlreadyRemoved answers, partial payload reads (resumed ranges), a header whose payload length disagrees.")
_p["rule"] += ("; policer/recreate: 500 (thorough 12000) seeded cases: rules 1..4/1..3, 1..14 nodes (a third: multiples of the part count), 0..1 REP "
               "lists before 1..2 EC rules, every part held by its first node / a fallback node / lost / first node under maintenance, error "
               "answers sprinkled, payload failures, local node anywhere in the list; non-trivial = at least one part re-created; plus the "
               "corpus of boundary cases")
