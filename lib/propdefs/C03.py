ENGINES.append({"name": "search", "path": "harness/eng_search.go", "serves_properties": ["C03"],
                "kind_free_text": "real meta.DB.Search / Shard.Search through the real PreprocessSearchQuery with real object.SearchFilters, page after page "
                                  "following the returned cursor, against Model/Search.lean (byte-level bucket + handler); brute-force oracle over the "
                                  "engine's own object list"})

prop("C03",
     theorems=["NeoFS.Search.early_exit_safe", "NeoFS.Search.page_sound_complete", "NeoFS.Search.page_items", "NeoFS.Search.pagination_exact",
               "NeoFS.Search.int_iff_decimal", "NeoFS.Search.numeric_filter_iff_decimal", "NeoFS.Search.plain_key_order",
               "NeoFS.Search.int_key_order", "NeoFS.Search.prefix_segment", "NeoFS.Search.runScan_spec", "NeoFS.Search.verdictOK_entries",
               "NeoFS.Search.verdictE_spec", "NeoFS.Search.primLoop_spec", "NeoFS.Search.secLoop_spec", "NeoFS.Search.stop_safe",
               "NeoFS.Search.pages_exact", "NeoFS.Search.plainCtx_of_preprocess", "NeoFS.Search.numeric_filter_bounds",
               "NeoFS.Search.parseIntFilter_ok", "NeoFS.Search.preprocess_fs", "NeoFS.Search.bucket_strictly_sorted",
               "NeoFS.Search.prefix_loop_exact", "NeoFS.Search.empty_query_page", "NeoFS.Search.scanUnfiltered_spec"],
     engines=[dict(name="search", quick=1, thorough=1)],
     claim="PARTIAL. The model is byte-level: the container bucket is the sorted list of the keys PutMetadataForObject writes, PreprocessSearchQuery, "
           "searchTx/searchUnfiltered and MetaDataKVHandler are transcribed (after four fixes, see note). Lean proves, for queries whose filter and "
           "requested attributes are stored as plain strings (user attributes, version, type, creation epoch, payload size, ROOT/PHY; ALL matchers: "
           "EQ, NE, PREFIX, NOT_PRESENT, numeric GT/GE/LT/LE, any number of filters incl. several over the first attribute and mixed numeric/string "
           "ones), ALL availability assignments and ALL page sizes: (1) early_exit_safe/verdictOK_entries - over ANY list of index elements visited in "
           "stored-value order above the seek bound, the handler's verdict on each element is exactly the declarative match (available and every filter "
           "satisfied, a value being numeric iff ParseDecimal accepts it) with exactly the requested attribute values (first one in canonical decimal "
           "form for a numeric first filter), and every early stop (first-filter mismatch, numeric upper bound, NOT_PRESENT on the first attribute, "
           "wasPrimMatch) happens only when no later element can match (uses C05: byte order of the 33-byte keys = numeric order); (2) "
           "page_sound_complete - one page is the first `count` matching elements of the visited segment and the cursor is the key of the last returned "
           "element, present iff more elements match; (3) pagination_exact - given (2) from the start and from every hit's cursor, following the cursor "
           "with ANY sequence of page sizes >= 1 yields every hit exactly once in order and ends with an empty cursor; (4) int_iff_decimal / "
           "numeric_filter_iff_decimal - a value is integer-indexed / can satisfy a numeric filter iff it is an optionally signed decimal string in "
           "range; (5) plainCtx_of_preprocess / numeric_filter_bounds - every query PreprocessSearchQuery accepts (any cursor) comes back with its own "
           "filters, numeric values parsed through the digit-string boundary logic to exactly the ParseDecimal value (raw bytes = its 33-byte "
           "encoding), AutoMatch set only for <= 2^256-1 and >= -(2^256-1), and never for a query answered empty by rule; (6) bucket_strictly_sorted / prefix_loop_exact - the model's bucket is strictly sorted with exactly the "
           "contributed keys, and Seek + skip-equal + iterate-while-prefix visits exactly the keys above the seek key that carry the prefix, in order "
           "(the prefix loop's early end loses nothing); (7) empty_query_page - the empty query returns the first `count` available ids of the "
           "visited id keys, no cursor only when nothing is left, a cursor = id of the last returned object only with a full page; (8) plain_key_order / "
           "int_key_order / prefix_segment - byte order of `attr 00 val 00 oid` (delimiter-free values) is the order on "
           "(val, oid), of `attr 00 int33 oid` the order on (number, oid), and keys with a common prefix form a segment. NOT proved (hypothesis "
           "IndexSegment of (1)-(2); PlainCtx is discharged by (5)): that seeking and prefix-scanning the model's own sorted key list enumerates exactly the attribute's "
           "elements after the seek key in that order and that Get answers the lookup (the remaining gap: identifying the filtered bucket keys of (6) with the attribute's (value, id) entries through (8), and Get with lookup), and the final "
           "identification of the visited matches with the independently sorted Spec/Search.lean specList; also not proved: binary-coded system "
           "attributes (owner, payload checksum, split ID, parent, first, associate - modelled with concrete Base58/hex/UUID codecs and exercised), "
           "cursor validation errors. All of these are covered by the differential run: "
           "every generated query runs the byte-level model and the real code page by page and must print the same items, attribute values and "
           "cursor bytes, and the real output must equal an index-independent brute-force oracle.",
     note="Four genuine defects of the current code were found by the oracle and FIXED in the repository (the model follows the repaired code): "
          "(a) filters over the first attribute other than the first one stopped the scan on any mismatch and numeric/string kinds were mixed up "
          "('a PREFIX ab AND a EQ abd', 'n<=20 AND n>=10', 'a!=x AND a==y', 'n==5 AND n<10' returned nothing); (b) NOT_PRESENT among the filters of the "
          "first requested attribute panicked; (c) requesting $Object:split.splitID for an object without split ID failed the whole search; (d) Base58 "
          "PREFIX on owner/parent/first/associate as first filter missed objects. Behaviour kept as is and modelled: NOT_PRESENT on any $Object: field "
          "answers empty ('unreachable'); odd-length hex / non-UUID / non-Base58 values are rejected when first but accepted when secondary; the empty "
          "query may return a cursor followed by one empty page when only removed objects remain. Trusted: Lean kernel; hand model Model/Search.lean "
          "tied by correspondence; bbolt ordered iteration; the SDK's SearchFilters; availability is the metabase's own objectStatus, taken as a "
          "per-object boolean and cross-checked against DB.Exists in the run (regime without locks and stored parents); search iteration limit "
          "(default 10000) never reached.",
     rule="60 (quick) / 4000 (thorough) seeded worlds of 8-32 objects in one container (every 5th through a real Shard): user attributes with "
          "colliding values, values that are prefixes of each other, 0x01/0xff bytes, decimal integers near 0 and +-(2^256-1), non-integers like '+', "
          "'1e3', ' 7', '--1'; 3 owners, 7 checksums (with 0x00 bytes and shared prefixes), split IDs, parent/first ids, tombstones (stored and "
          "searchable), removal marks, expiration and epoch changes; 25-40 queries per world: 0-4 filters over user and system attributes with all "
          "matchers (several filters over one attribute on purpose), 0-3 requested attributes, page-size sequences 1, 2, random, N, 1000, each "
          "followed along the returned cursor; plus the hand-written boundary corpus (the four fixed defects, numeric bounds, unreachable and invalid "
          "queries) through DB and Shard; non-trivial = a page break with items left, distinct by query+world+page",
     trusted=["bbolt cursor iteration (Seek/Next over sorted keys) is modelled by list operations",
              "mr-tron/base58, encoding/hex, google/uuid are modelled concretely in Lean (exercised, not verified)",
              "object availability (objectStatus) is a parameter of the theorems; the run cross-checks it against DB.Exists"],
     assumptions=["attribute names and values contain no 0x00 byte and values are non-empty (VerifyHeaderForMetadata / format validation)",
                  "an object has at most one attribute of a given name (format validation)",
                  "numeric matchers are used only on attributes that can be integer-indexed (not version, type, ROOT, PHY or binary system fields)",
                  "requested attribute list, if any, starts with the first filter's attribute (checked by the object service)"])
