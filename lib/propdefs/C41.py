prop("C41",
     theorems=["NeoFS.Wire.varint_roundtrip", "NeoFS.Wire.varint_decode_bounds", "NeoFS.Wire.varint_encode_length",
               "NeoFS.Wire.gnpfb_safe", "NeoFS.Wire.parent_safe", "NeoFS.Wire.parent_header_safe", "NeoFS.Wire.ehp_safe",
               "NeoFS.Wire.header_getters_total", "NeoFS.Wire.gnpfb_refines", "NeoFS.Wire.gnpfb_refusal_class",
               "NeoFS.Wire.gnpfb_agrees", "NeoFS.Wire.late_header_disagrees", "NeoFS.Wire.canonical_agrees"],
     engines=[dict(name="wire", quick=1, thorough=1)],
     claim="Byte-level Lean model of the protobuf wire format (varints <= 10 bytes / 64 bit, tags, LEN / fixed / group skipping), of the SDK seekers "
           "and of the scans in internal/object/wire.go, beside a reference decoder that follows protobuf-go's top-level message loop. Proved for "
           "EVERY byte string: each fast path (GetNonPayloadFieldBounds, GetParentNonPayloadFieldBounds[Header], ExtractHeaderAndPayload) either "
           "fails or returns bounds/offsets with from <= valueFrom <= to <= len (the model's form of 'never panics': every slice expression of the "
           "code and of its callers is in range) and no loop exhausts its fuel; varint decode(encode n) = n for all n < 2^64. Proved for EVERY byte "
           "string the full decoder's wire stage accepts: GetNonPayloadFieldBounds equals an abstract scan of the decoded field list (refinement), "
           "hence it refuses exactly: the empty message, fields 1..3 not strictly ascending before the stop point, a field <= 3 of non-LEN type; "
           "when it answers and no LEN field 1..3 stands after its stop point each reported field is the single occurrence the full decoder sees "
           "(missing iff none); a late field breaks agreement (decide-checked witness, replayed on the code). Proved for every canonical object "
           "encoding (any contents, each of id/signature/header/payload present or absent): both succeed and agree. Tied to the real functions and "
           "to real proto.Unmarshal / object.Unmarshal by a line-by-line differential run (bounds, error classes, field lists, payload offset, id). "
           "A defect was found and repaired (fix commit): an empty split header made the parent-bounds paths fail where the full decoder accepts.",
     note="Only exercised, not proved: refinement/agreement for the parent paths, GetPayloadLengthHeader/GetTypeHeader and ExtractHeaderAndPayload "
          "(their models are tied by the differential run and their canonical-encoding agreement is checked by the Go oracle against object.Unmarshal); "
          "that reported bounds slice out exactly the encoded value bytes (oracle: byte equality with the re-marshalled fields). Parameters, not "
          "modelled: proto.Unmarshal of ObjectID/Signature/Header contents and Object.FromProtoMessage inside ExtractHeaderAndPayload (their answers "
          "are recorded by the engine into the op line: cbad, sem). By design the fast paths read a PREFIX: input that is malformed or carries "
          "another field 1..3 after the stop point is not looked at (class stated by gnpfb_agrees / late_header_disagrees; the oracle requires every "
          "observed disagreement with the full decoder to lie in it). Group recursion depth limit (10000) of protobuf-go is not modelled (buffers "
          "are far shorter). Trusted: Lean kernel, hand model Model/Wire.lean, error-class mapping by message prefix in harness/eng_wire.go.",
     rule="per seed: valid objects (with/without id, signature, payload, parent, split; header sizes 126..129 and 16383..16385 across the 1/2/3-byte "
          "length boundary) -> canonical encoding, WriteWithoutPayload form, truncation at every offset, all permutations of the top-level fields, "
          "every field duplicated / dropped / preceded by 26 odd fields (every wire type, groups, reserved and out-of-range numbers, over-long "
          "tags) at every position, lengths rewritten (off by one, 2^31, 2^63-1, 2^63, 2^64-1, over-long, overflowing 10-byte), 250 single-byte "
          "mutations, header- and split-level permutations/duplicates/odd fields (also wrapped back into objects); all strings up to 3 bytes over "
          "a 15-byte alphabet plus 1500 longer ones; varint boundaries 2^(7k)+-1 with truncations and over-long forms; non-trivial = byte string "
          "accepted by object.Unmarshal (or by the Header decoder) whose re-marshalling is identical (canonical); distinct by bytes",
     trusted=["Model/Wire.lean is a hand transcription of internal/object/wire.go, neofs-sdk-go proto/protobuf {parsers,seekers}.go and protowire; "
              "tied by the line-by-line correspondence run only",
              "field numbers (object 1-4, header 5/7/11, split 1-4) are compared with the SDK constants by the 'consts' op of every run"],
     assumptions=["buffer length < 2^63 (Go int) in the refinement theorems", "protobuf-go group recursion limit not reached"])
ENGINES.append({"name": "wire", "path": "harness/eng_wire.go", "serves_properties": ["C41"],
                "kind_free_text": "feeds the real fast object parsers (internal/object via verifbridge) and the real decoders (proto.Unmarshal, "
                                  "object.Unmarshal) with generated, permuted, truncated and mutated encodings against Model/Wire.lean"})
