prop("C24",
     level="proof",
     theorems=["NeoFS.Validate.stored_implies_valid", "NeoFS.Validate.unprepared_stored_is_streamed",
               "NeoFS.Validate.downstream_error_surfaces", "NeoFS.Validate.chunking_irrelevant", "NeoFS.Validate.writes_ok"],
     engines=[dict(name="validate", quick=1, thorough=1)],
     lean_modules=["NeoFS.Props.C24"],
     claim="PARTIAL. Lean theorems over Model/Validate.lean (the validatingTarget state machine of the PUT pipeline: WriteHeader checks in "
           "the code's order, Write with overflow test, running hash, downstream write and quota check, Close with size and checksum "
           "comparison) for every header, payload, hash function, EVERY chunking of the payload writes (incl. empty chunks) and every position "
           "of a failing downstream write: (1) an accepted stream of a prepared object passed every format check, is within the size limit and "
           "quota, and the next target received exactly the concatenation of the streamed chunks, whose length is the declared size and whose "
           "hash is the declared checksum (stored_implies_valid); (2) for unprepared (node-sliced) objects the bytes handed to the slicer are "
           "exactly the streamed bytes (unprepared_stored_is_streamed); (3) a failed downstream write is never reported as success "
           "(downstream_error_surfaces) - the real code violated this (validation.go Write overwrote the error with the quota result; shown by "
           "the engine's replay corpus/validate/write-error.ops, repaired by a fix: commit, model follows the repaired code); (4) what is handed "
           "on does not depend on the chunking (chunking_irrelevant). The FormatValidator is abstracted to one boolean per check (version, "
           "container id set/known, owner set, attributes, expiration, id set, id = header hash, signature valid under an ideal scheme, "
           "owner = signer), so 'consistent' and 'authenticated' are conjunctions of those booleans - that part of the claim is definitional; "
           "which real header corruption falsifies which boolean is a table in Driver/Validate.lean tied by the differential run: SDK-built "
           "objects, valid or corrupted in ONE field (18 kinds: wrong ID (also with a signature made over the wrong ID), bad/missing signature, owner not the signer, checksum mismatch / missing "
           "/ Tillich-Zemor, duplicate / empty / zero-byte attribute, missing / unknown container, bad / past expiration, missing ID, missing "
           "owner, old version), prepared and unprepared, streamed in several chunkings through the REAL validatingTarget + FormatValidator "
           "(real ECDSA, SHA-256, ID hashing) over a recording downstream target; the oracle re-validates independently (SDK VerifyID, "
           "VerifySignature, SHA-256 of received bytes, owner = signer key, attribute rules) everything the downstream target was told to store. "
           "NOT covered: EC part / parent header rules (checkEC*), split and nested parent headers, session tokens, tombstone/lock/link content "
           "rules, Server.Replicate and ValidateAndStoreObjectLocally entry points, the slicer's child assembly (slices_reassemble).",
     note="Trusted: Lean kernel; hand model Model/Validate.lean and the corruption-kind table, tied by correspondence only; SHA-256 / ECDSA / "
          "protobuf are exercised, not modelled (hash = parameter H, signature = boolean). Quota arithmetic for EC rules of unprepared objects "
          "is not modelled (the tie's container has REP 1 only).",
     rule="5 declared sizes (0,1,7,64,300) x 19 header kinds x prepared/unprepared x 4-5 chunkings (whole, 1+rest, rest+1, halves, random with "
          "empty chunks), plus per size 12 (thorough 300) seeded streams shorter/longer than declared with failing downstream writes, quotas and "
          "size limits; non-trivial = more than one chunk or a corrupted header; distinct by op",
     trusted=["Model/Validate.lean is a hand transcription of validation.go; the per-check booleans abstract fmt.go (tie: differential run over single-field corruptions)"],
     assumptions=["the object header carries no payload chunk in WriteHeader (as the gRPC server feeds it)"])

ENGINES.append({"name": "validate", "path": "harness/eng_validate.go", "serves_properties": ["C24"],
                "kind_free_text": "streams SDK-built valid / single-field-corrupted objects in several chunkings through the real validatingTarget + FormatValidator over a recording, optionally failing downstream target, against Model/Validate.lean; independent re-validation oracle"})
