prop("C24",
     level="proof",
     theorems=["NeoFS.Validate.stored_implies_valid", "NeoFS.Validate.unprepared_stored_is_streamed",
               "NeoFS.Validate.downstream_error_surfaces", "NeoFS.Validate.chunking_irrelevant", "NeoFS.Validate.writes_ok",
               "NeoFS.Validate.cacheAuth_sound", "NeoFS.Validate.auth_verdict_cache_independent",
               "NeoFS.Validate.authSeq_history_independent", "NeoFS.Validate.auth_last_verdict_history_independent",
               "NeoFS.Validate.authenticated_owner_bound", "NeoFS.Validate.stored_implies_format_valid",
               "NeoFS.Validate.cluster_ok_implies_stored", "NeoFS.Validate.outsider_stores_nothing"],
     engines=[dict(name="validate", quick=1, thorough=1)],
     lean_modules=["NeoFS.Props.C24"],
     claim="PARTIAL. Lean theorems over Model/Validate.lean (the validatingTarget state machine of the PUT pipeline: WriteHeader checks in "
           "the code's order, Write with overflow test, running hash, downstream write and quota check, Close with size and checksum "
           "comparison) for every header, payload, hash function, EVERY chunking of the payload writes (incl. empty chunks) and every position "
           "of a failing downstream write: (1) an accepted stream of a prepared object passed every format check, is within the size limit and "
           "quota, and the next target received exactly the concatenation of the streamed chunks, whose length is the declared size and whose "
           "hash is the declared checksum (stored_implies_valid); (2) for unprepared (node-sliced) objects the bytes handed to the slicer are "
           "exactly the streamed bytes (unprepared_stored_is_streamed); (3) a failed downstream write is never reported as success "
           "(downstream_error_surfaces) - the real code violated this (validation.go Write overwrote the error with the quota result; shown by "
           "the engine's replay corpus/validate/write-error.ops, repaired by a fix: commit, model follows the repaired code); (4) what is handed "
           "on does not depend on the chunking (chunking_irrelevant). The FormatValidator is abstracted to one boolean per check (version, "
           "container id set/known, owner set, attributes, expiration, id set, id = header hash, signature valid under an ideal scheme, "
           "owner = signer), so 'consistent' and 'authenticated' are conjunctions of those booleans - that part of the claim is definitional; "
           "which real header corruption falsifies which boolean is a table in Driver/Validate.lean tied by the differential run: SDK-built "
           "objects, valid or corrupted in ONE field (18 kinds: wrong ID (also with a signature made over the wrong ID), bad/missing signature, owner not the signer, checksum mismatch / missing "
           "/ Tillich-Zemor, duplicate / empty / zero-byte attribute, missing / unknown container, bad / past expiration, missing ID, missing "
           "owner, old version), prepared and unprepared, streamed in several chunkings through the REAL validatingTarget + FormatValidator "
           "(real ECDSA, SHA-256, ID hashing) over a recording downstream target; the oracle re-validates independently (SDK VerifyID, "
           "VerifySignature, SHA-256 of received bytes, owner = signer key, attribute rules) everything the downstream target was told to store. "
           "(5) AUTHENTICATION HAS NO MEMORY: AuthenticateObject with the node's shared ObjectSessionsCache (an LRU keyed by the token hash, "
           "modelled with eviction for every capacity) - for every token table, every capacity and EVERY sequence of objects validated by one "
           "validator, the verdict of each object equals the verdict of a validator that has never seen a token (cacheAuth_sound, "
           "auth_verdict_cache_independent, authSeq_history_independent, auth_last_verdict_history_independent), and an accepted object is "
           "bound to its owner: the owner signed it, or it carries an authentic session token issued BY THE OWNER for the signing key "
           "(authenticated_owner_bound). Tie: op authseq - ONE real FormatValidator with ONE real ObjectSessionsCache (capacity 1, 2, 3, 8) "
           "validates sequences of SDK-sealed objects: 7 session tokens (V1 and V2, issued by two owners, with broken token signatures, for "
           "another key) x 3 owners x 3 signing keys x broken object signatures, same token on objects of different owners in both orders; "
           "oracles verdict-independent-of-validation-history (every verdict is compared with a FRESH validator's on the real code) and "
           "accepted-object-bound-to-its-owner. (6) EVERY ENTRY POINT: a model of what runs before an object reaches a node's local storage "
           "(Streamer.preparePrm, validatingTarget, distributedTarget.Close's content validation with its outside-the-container skip, "
           "saveObject's local-only rule, ValidateAndStoreObjectLocally) over a cluster of two container nodes and one outsider and five "
           "routes (PUT, local-only PUT, PUT through the outsider which forwards local-only PUTs, refused local-only PUT at the outsider, "
           "Replicate): a node's storage receives an object only if its header AND its type-specific content were validated "
           "(stored_implies_format_valid), ok means stored (cluster_ok_implies_stored), the outsider stores nothing (outsider_stores_nothing). "
           "Tie: op entry - three REAL putsvc.Service instances (real Streamer, validatingTarget, slicer, distributedTarget.Close/saveObject, "
           "ValidateAndStoreObjectLocally, real FormatValidator with the REAL tombstone.Verifier over a fixed object universe and a "
           "table-driven split verifier) wired to each other (replication request -> receiver's ValidateAndStoreObjectLocally, forwarded PUT "
           "-> receiver's local-only stream); regular / tombstone (11 content variants: target LOCK / TOMBSTONE / LINK / child of a finished V2 "
           "or V1 chain / unavailable / already removed / split info / child of an unfinished chain / payload) / lock (payload) / link (empty, "
           "undecodable, refused chain, no first ID) objects, client-sealed or sealed by the serving node, broken signatures; oracles "
           "stored-object-content-valid (by the table, independent of the validators), stored-object-header-valid, "
           "stored-payload-matches-header, stored-only-on-container-nodes. "
           "NOT covered: EC part / parent header rules (checkEC*), nested parent headers, N3 witness signatures, NNS subjects of V2 tokens, "
           "the gRPC layer of Server.Replicate (signature and container-membership checks: C31), split.Verifier itself (a table stands for "
           "it), the slicer's child assembly (slices_reassemble).",
     note="Trusted: Lean kernel; hand model Model/Validate.lean and the corruption-kind table, tied by correspondence only; SHA-256 / ECDSA / "
          "protobuf are exercised, not modelled (hash = parameter H, signature = boolean). Quota arithmetic for EC rules of unprepared objects "
          "is not modelled (the tie's container has REP 1 only).",
     rule="5 declared sizes (0,1,7,64,300) x 19 header kinds x prepared/unprepared x 4-5 chunkings (whole, 1+rest, rest+1, halves, random with "
          "empty chunks), plus per size 12 (thorough 300) seeded streams shorter/longer than declared with failing downstream writes, quotas and "
          "size limits; 126 fixed + 120 (thorough 3000) seeded authseq sequences of 2-8 objects over <= 3 tokens; ~190 entry cases (5 routes x "
          "4 types x content variants x client-/node-sealed x broken signature); corpus auth-history.ops, entry-content.ops; "
          "non-trivial = more than one chunk or object, a corrupted header, invalid content or a non-default route; distinct by op",
     trusted=["Model/Validate.lean is a hand transcription of validation.go; the per-check booleans abstract fmt.go (tie: differential run over single-field corruptions)",
              "the session cache key (SHA-256 of the encoded token) determines the token (collision freeness)",
              "authenticate / cluster in Model/Validate.lean are hand transcriptions of internal/crypto/object.go, distributed.go Close/saveObject, streamer.go preparePrm, local.go (tie: ops authseq and entry)"],
     assumptions=["the object header carries no payload chunk in WriteHeader (as the gRPC server feeds it)"])

ENGINES.append({"name": "validate", "path": "harness/eng_validate.go", "serves_properties": ["C24"],
                "kind_free_text": "validates sequences of session-token objects by one real validator with the real shared cache; drives three real put services (PUT, local-only PUT, forwarded PUT, Replicate) with system objects of valid/invalid content; streams SDK-built valid / single-field-corrupted objects in several chunkings through the real validatingTarget + FormatValidator over a recording, optionally failing downstream target, against Model/Validate.lean; independent re-validation oracle"})
