prop("C27",
     theorems=["NeoFS.Policer.replicator_sound", "NeoFS.Policer.pass_tasks_sound", "NeoFS.Policer.pass_keeps_covered",
               "NeoFS.Policer.turns_keep_covered", "NeoFS.Policer.round_keeps_covered", "NeoFS.Policer.rounds_keep_covered",
               "NeoFS.Policer.walk_progress", "NeoFS.Policer.processNodes_progress", "NeoFS.Policer.single_rule_pass_restores",
               "NeoFS.Policer.single_rule_round_converges", "NeoFS.Policer.single_rule_converges",
               "NeoFS.Policer.handleTaskC_sound", "NeoFS.Policer.interrupted_transfer_not_reported", "NeoFS.Policer.handleTaskC_no_cut",
               "NeoFS.Policer.shortage_never_wraps", "NeoFS.Policer.task_quantity_bounded", "NeoFS.Policer.pass_task_quantity_bounded"],
     lean_modules=["NeoFS.Props.C27", "NeoFS.Props.C27b"],
     engines=[dict(name="policer", quick=1, thorough=1)],
     claim="PARTIAL. Lean proves over the cluster model (state = set of holders of one object; a cycle = the nodes of an arbitrary order take "
           "turns, every holder running the C26 pass with itself as the local node against the shared state, truthful HEAD answers, nodes "
           "that are down answer with errors and refuse replicas, nodes in the MAINTENANCE state of the network map are not asked, refuse "
           "replicas and do not run), for ALL clusters with REP rules, all orders, all down sets, all maintenance sets, all numbers "
           "of cycles: (1) the replicator reports at most the requested number of successes, only nodes of the task, never the local node, "
           "only nodes that accepted the object - for every task of every pass (replicator_sound, pass_tasks_sound); (2) SAFETY, using the "
           "C26 theorem: no turn, no cycle and no sequence of cycles takes a rule that has its required number of distinct holders below that "
           "number (pass_keeps_covered, round_keeps_covered, rounds_keep_covered) - policer actions never reduce the holders below the "
           "requirement; (3) PROGRESS for containers with ONE REP rule (list of distinct nodes at least as long as the rule asks): in a "
           "stable network the turn of ANY holder leaves the rule with its required number of distinct holders (walk_progress, "
           "processNodes_progress, single_rule_pass_restores: the nodes that lowered the shortage plus the first `shortage` candidates the "
           "replicator filled), hence after ONE cycle in which some holder takes a turn the rule is covered "
           "(single_rule_round_converges) and by (2) it stays covered through all later cycles whatever then goes down "
           "(single_rule_converges). Bound: 1 cycle. NOT proved (def C27_full): convergence for SEVERAL rules, that the copies end up on "
           "the PRIMARY nodes, and that replication then stops. These are exercised: the real processObject + real Replicator.HandleTask run "
           "as every node of simulated clusters (3-7 nodes, 1-3 overlapping REP lists, REP 1-3, all four object types, random initial "
           "holders, 0-3 unstable cycles with nodes down and partial orders, then 4 stable full cycles), compared cycle by cycle with the "
           "model, and the oracle requires: after 2 stable cycles every satisfiable rule has its copies on its primary nodes, in the 3rd "
           "no task with candidates is issued, in the 4th nothing moves; every turn keeps covered rules covered; every task report is sound.",
     note="EXTENSION (Props/C27b.lean). (4) Replicator.HandleTask with the context cancelled while a transfer is in flight, with and "
          "without the object carried by the task, for EVERY environment, quantity, node list and cancellation point: at most `quantity` "
          "successes, only task nodes, a remote node only if it really stored the object, the interrupted node never "
          "(handleTaskC_sound, interrupted_transfer_not_reported); without cancellation it is the loop of the pass model "
          "(handleTaskC_no_cut). Tied by op `task`: the REAL HandleTask over the real storage engine, the remote fake cancels the "
          "task's context during the call (failing, or after having stored), oracle = the property's sentence recounted from what the "
          "fakes stored. (5) The shortage counter of processNodes is modelled as the code's uint32 (dec32 wraps at zero): for EVERY environment - maintenance nodes of the network map at any position, the local node anywhere or outside "
          "the container - the counter never grows through the node loop (shortage_never_wraps), so no task of any pass asks for more "
          "copies than a rule requires except the rebalancing task with one copy per candidate (task_quantity_bounded, "
          "pass_task_quantity_bounded). Tied by `pass` ops with every single and every pair of maintenance nodes at every position of "
          "lists of 2..5 nodes, the local node at every position or outside, plus seeded overlapping lists, and by cluster cycles with "
          "maintenance nodes; oracle task-quantity-within-rule-requirement on every pass. The convergence sentences are asserted only "
          "for cycles without down or maintenance nodes (the property's 'stable network map and reachable nodes'). "
          "Trusted: Lean kernel; hand model Model/Policer.lean (cluster section), tied by correspondence. Not modelled: timing, worker pools, "
          "batching/boost window, concurrency of passes of different nodes (turns are sequential), partial visibility. Observation worth a "
          "maintainer's look (not a violation of the statement as read here): in containers with several REP rules whose lists overlap, a node "
          "confirmed as holder while processing an earlier list is skipped WITHOUT lowering the shortage of a later list (nodeCache hit => "
          "`continue`), so a fully replicated object is reported as 'shortage of object copies' in every cycle and a replication task with an "
          "EMPTY candidate list is issued for ever (hadReplicaShortage => consistency metric false, boost mode), and a backup node of the later "
          "list can receive and keep an extra copy. The run counts these (histogram task-without-candidates, quiescent-round-with-empty-tasks); "
          "'stop replicating' is read as 'no task with candidate nodes'.",
     rule="maintenance family: lists of 2..5 (thorough 6) nodes x local node at every position or outside x every single / (half of the) pairs of "
          "maintenance nodes x REP 1..3 x 4 holder patterns, 1500 (40000) seeded overlapping placements with maintenance flags p=1/3; task "
          "family: all lists of 1..3 nodes out of {1,2,3,local} x acceptance tables x quantity 0..3 x cancellation at every node or never "
          "(a third in quick) + 1500 (40000) seeded tasks of 1..7 nodes, cancellation in half of them, quantity up to 2^32-1; "
          "700 (thorough 20000) seeded clusters: 3..6 container nodes + 1 outsider, 1..3 REP lists (random permutations of random subsets), "
          "REP 1..min(3,len), type REG (4/7) TS LOCK LINK, random non-empty initial holders; 0..3 unstable cycles (each node down with p=1/4, in maintenance with p=1/6, "
          "each node in the order with p=2/3), in a third of the clusters 2 cycles with ONE fixed maintenance node and everybody else up, then 4 stable cycles in random full orders; per cycle: holders, number of tasks, drops; per "
          "turn: replicator report and rule coverage before/after; non-trivial = every cycle; distinct by history prefix",
     trusted=["the storage engine under the real replicator is exercised, not modelled here"],
     assumptions=["a cancelled context makes the interrupted call fail or arrive; the loop then stops at its next iteration (ctx.Done)",
                  "turns of different nodes do not overlap in time", "HEAD answers are truthful (a node answers `has` iff it holds the object)",
                  "the container exists and has REP rules only (EC parts are covered by C26's EC theorem, not by the cluster model)"])
