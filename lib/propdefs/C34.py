prop("C34",
     theorems=["NeoFS.Notary.matchRest_validate", "NeoFS.Notary.cosign_implies_all_calls_expected",
               "NeoFS.Notary.cosign_ir_all_calls_expected", "NeoFS.Notary.matchRest_length", "NeoFS.Notary.cosign_structure",
               "NeoFS.Notary.non_alphabet_never_cosigns", "NeoFS.Notary.C34_holds_for_repaired_code",
               "NeoFS.Notary.unfixed_counterexample"],
     engines=[dict(name="ir", quick=1, thorough=1)],
     claim="Lean theorems over ALL notary requests (scripts of any number of calls to any contracts/methods with any argument shapes, any "
           "signer/witness/attribute layout, any fallback, any chain height), all parser registries and all handler validation predicates: if the "
           "modelled node co-signs, then (1) EVERY call of the main script is a (contract, method) pair a notary parser is registered for and its "
           "arguments were accepted by the validation the handler applies for that very method (induction over the call list against the parser's "
           "expected calls; no call rides along), (2) the request has 3|4 witnesses and as many signers with the alphabet account second, one "
           "NotaryAssisted attribute with the expected key count, empty proxy witness, current alphabet verification script, non-empty invoker "
           "witness, notary placeholder, a fallback with exactly one NotValidBefore above the current height, was not handled before, is not the "
           "node's own, and the node is alphabet. The pre-repair parser (second call of createV2 checked for argument shape only) is kept as "
           "cosignUnfixed with a decide-checked counterexample; that request WAS co-signed by the real processor before fix fb346e2 (replayed "
           "through this engine; corpus/ir/c34-boundary.ops). The model is tied to the real event listener (real preparator.Prepare, "
           "acceptOnlySingleCall, all 14 registered notary parsers, real container processor handlers and validation with real ECDSA "
           "signatures, intercepted NotarySignAndInvokeTX) by a line-by-line differential run.",
     note="Proved: the implications above for the model. Exercised only: that the model equals the code (differential run; prepare error class, "
          "parser verdict, handler reached, co-signed or not) and the oracle on the real recorded co-signatures (every call of a co-signed script "
          "re-parsed independently is a registered pair and was generated with valid arguments). Abstracted: argument values are push-instruction "
          "kinds; what a handler checks about argument CONTENTS (signature, owner, session token, eACL table, NNS) is the predicate hv(method, "
          "call) — true/false variants are produced with real signatures only for create, createV2(+putEACL), remove, putEACL; the other container "
          "methods reach their real handlers only with failing validation; netmap/reputation requests run through the real parsers but recording "
          "handlers (their processors are driven by C35). Not checked by the code and therefore not claimed: first signer = proxy, last signer = "
          "notary contract, signer scopes, call flags, nonce / validUntilBlock of the main transaction (the subscription filter and the notary "
          "service are relied on). Assumed: neo-go scparser returns exactly the calls of the script; the LRU 'already handled' cache is modelled "
          "as a boolean input.",
     rule="1500 (quick) / 20000 (thorough) seeded requests: 0-3 calls over container/netmap/reputation/2 foreign contracts x 15 method names "
          "(13 registered + 2 unregistered) x canonical / dropped / extra / retyped arguments (10 push kinds); alphabet of 1/4/7 keys; with and "
          "without invoker witness; ~40% get one or two structural mutations out of 16 kinds (witness/signer counts and kinds, attributes, "
          "fallback attributes, expiry boundary, own request, duplicate delivery, trailing opcode, non-alphabet node); non-trivial = co-signed "
          "or more than one call; distinct by op",
     trusted=["Model/Notary.lean is a hand transcription of notary_preparator.go / listener.go / the notary parsers / process_container.go; tied by correspondence",
              "verif-tagged interception of morph client calls (pkg/morph/client/verif_intercept_on.go) records what would be sent to the chain"],
     assumptions=["scparser.GetAppCallFromContext yields exactly the script's calls", "ECDSA/RFC6979 signatures are unforgeable (handler validation abstracted as hv)"])
ENGINES.append({"name": "ir", "path": "harness/eng_ir.go", "serves_properties": ["C34", "C35"],
                "kind_free_text": "drives the real inner ring event listener, notary preparator/parsers and processors with connection-less morph clients whose chain calls are intercepted, against Model/Notary.lean and Model/IRAuth.lean"})
