prop("C29",
     theorems=["NeoFS.Handlers.checker_sound", "NeoFS.Handlers.post_sound", "NeoFS.Handlers.get_runEv", "NeoFS.Handlers.checker_sound_view",
               "NeoFS.C29.all_handlers_checked",
               "NeoFS.C29.effects_follow_checks", "NeoFS.C29.denied_signature_blocks_effects", "NeoFS.C29.put_applies_sticky_bit",
               "NeoFS.C29.skip_only_without_header", "NeoFS.C29.wrong_header_is_refused", "NeoFS.C29.missing_header_is_refused",
               "NeoFS.C29.identity_is_authenticated", "NeoFS.C29.header_identity_needs_valid_header",
               "NeoFS.C29.relay_data_after_good_check", "NeoFS.C29.relay_no_data_before_check", "NeoFS.C29.relay_denied_sends_nothing",
               "NeoFS.C29.local_data_after_good_check", "NeoFS.C29.local_denied_sends_nothing"],
     lean_modules=["NeoFS.Props.C29", "NeoFS.Props.C29Auth"],
     engines=[dict(name="rpc", quick=1, thorough=1)],
     claim="Programs part: harness/extract type-checks pkg/services/object from the working tree on every run and abstracts EVERY handler of the "
           "object service (all methods of protoobject.ObjectServiceServer plus every exported server method with the same parameter list, e.g. "
           "HeadBuffered/SearchV2Buffered; package-local callees inlined, callees classified by resolved object) into a term of a small language "
           "(Gen/Handlers.lean). Lean proves once, by induction, that the executable checker is sound for ALL runs of a term (any check outcomes, "
           "any branch decisions consistent with them, any number of loop iterations): checker p policy = true implies every effect event of "
           "every run happens in a state the policy allows (checker_sound). For every generated handler the checker is then evaluated in the "
           "kernel (all_handlers_checked quantifies over the generated list, so a new handler is under the obligation automatically): before any "
           "storage access, forwarding or data-carrying response the request signatures verified, no token was refused, request classification, "
           "basic ACL, sticky bit (PUT) and extended ACL passed (eACL 'no rule matched' = basic ACL decides; PUT's ErrSkipRequest skips ACL as the "
           "code does); Replicate stores only after the object signature and both container-node lookups succeeded; a denied signature is "
           "followed by nothing but the answer. Inputs part: the real Server is built over recording fakes and every handler is called with "
           "valid, unsigned, wrongly signed, refused-token, unclassifiable, basic-ACL-denied, sticky-denied, eACL-denied and maintenance requests; "
           "oracle: no fake touched + the right status class; the refusal expected by the model is computed from the regenerated skeleton. "
           "Who the request is authenticated as (op auth): Model/ReqAuth.lean models internal/crypto.requestNeedsSignature and "
           "acl/v2.getRequestCredentials; proved for EVERY request (any TLS state, TTL, verification header, token issuer): the signature "
           "chain is skipped only for a header-less TTL=1 request of a TLS peer, a header that does not verify is always refused, and the "
           "identity handed to access control made a header that verifies / is the TLS key of such a request / issued the token of a request "
           "whose header verifies (identity_is_authenticated). Tie: every handler is called over the REAL acl/v2.Service with the full table "
           "TLS peer (none/owner/stranger) x TTL (1,2) x header (absent, correct, damaged, forged: names a key over random signatures) x named key "
           "(container owner, stranger) on a private container; observation = status / the key and role the ACL stage was asked about / served. "
           "Header-time eACL re-check of GET (op relay): Model/GetRelay.lean models the relay (getProxyContext: onceHdr, suppressInit, "
           "headWas, chunkBoundsToSend, validateEOF, node-after-node retry) and the storage header interceptor; proved for EVERY list of remote "
           "nodes and EVERY message sequence each answers: when the request-time evaluation was inconclusive every message to the client "
           "follows an evaluation of the eACL against the header that did not deny (relay_no_data_before_check), and a denial sends nothing "
           "(relay_denied_sends_nothing), payload_only or not. Tie: the REAL Server.Get over the REAL getsvc.Service with a local storage engine "
           "and a remote container node (gRPC server on an in-memory listener answering heading part + chunks, also chunk-first, doubled heading "
           "part, truncated payload), for ordinary and payload_only GETs, object local or remote, request-time verdict pass/inconclusive/deny, "
           "header verdict allow/deny; the client stream is decoded message by message.",
     note="Proved: soundness of the checker for every term/policy/run; acceptance of every generated handler term. Trusted: the translator "
          "harness/extract/skel.go + its tag table rules.go (which callee is a check/effect/neutral; how branch conditions refine check results; "
          "closures and function values run where created and their checks are not credited to the handler; checks made inside callbacks handed "
          "to getsvc/putsvc are not part of the skeleton - the header-time eACL re-check of GET is covered by Model/GetRelay.lean and op relay "
          "(relay path and storage interceptor; the re-check of assembled split/EC objects, getStream.ValidateHeader, and of HEAD/RANGE are "
          "not driven); regions that touch no check are summarised to 'their effects in any order'). Assumed: putsvc.Streamer refuses SendChunk/Close before a successful Init "
          "(exercised: scenario chunkfirst); Handlers.Put only allocates the stream (read). Not modelled: the contents of the checks themselves "
          "(C28, C30, C33), payload bytes vs header-time eACL inside pkg/services/object/get. States are packed into naturals for kernel speed; "
          "Lemmas/Handlers.lean proves the packing is a faithful finite map, so the theorems are stated over 'latest outcome of every check in the "
          "history before the effect' (lastOutcomes).",
     rule="(1) every handler found by reflection on the server x 15 scenarios (ok, eACL-not-matched, corrupted signature, missing verification header, "
          "maintenance, refused token, malformed token, unclassifiable sender, container not found, basic ACL, eACL, sticky bit, skip-ACL, chunk "
          "before init; Replicate: bad object signature, container lookup failures) x 5 request variants (ttl, raw flag, session v2 / v1 / bearer "
          "token, tombstone PUT, extra chunk); non-trivial = request refused with zero recorded effects; distinct by op line; "
          "(2) op auth: every client handler x 3 TLS states x 2 TTLs x 4 header kinds x 2 named keys, non-trivial = unauthenticated request refused "
          "with zero effects; (3) op relay: source x payload_only x request-time verdict x header verdict x payload shapes + malformed remote "
          "streams, non-trivial = header-time denial with nothing sent",
     trusted=["harness/extract/skel.go and rules.go (control-skeleton translator and tag table) are in the trusted base of this property",
              "recording fakes of Handlers/FSChain/Storage/ACLChecker/ACLInfoExtractor/ClientConstructor in harness/eng_rpc.go",
              "op auth: ECDSA and the SDK's request signing/verification; the fake ACL checker deciding by the container's basic ACL",
              "op relay: the fake eACL checker (decides by the header attribute Class), the in-memory gRPC remote node, grpc-go"],
     assumptions=["putsvc.Streamer.SendChunk/Close refuse a stream that was not initialised (exercised by scenario chunkfirst)",
                  "ideal signature scheme in Model/ReqAuth.lean (a header either verifies for the key it names or not); session token validity is C30's",
                  "the SDK eACL validator's verdict is final once the object header is available (so 'no rule matched' is a request-time answer only)",
                  "getsvc stops asking nodes after an API-status error of the transport callback and goes on after any other error (processNode)",
                  "error constructors (errors.New, fmt.Errorf, status.Error, newBadRequestError) and package-level sentinel errors are non-nil"])
ENGINES.append({"name": "rpc", "path": "harness/eng_rpc.go", "serves_properties": ["C29", "C45", "C32"],
                "kind_free_text": "builds the real object service Server and both control service Servers over recording fakes, drives every "
                                  "handler (enumerated by reflection) with valid and invalid requests; the model answers from the regenerated skeletons"})
