prop("C29",
     theorems=["NeoFS.Handlers.checker_sound", "NeoFS.Handlers.post_sound", "NeoFS.Handlers.get_runEv", "NeoFS.Handlers.checker_sound_view",
               "NeoFS.C29.all_handlers_checked",
               "NeoFS.C29.effects_follow_checks", "NeoFS.C29.denied_signature_blocks_effects", "NeoFS.C29.put_applies_sticky_bit"],
     engines=[dict(name="rpc", quick=1, thorough=1)],
     claim="Programs part: harness/extract type-checks pkg/services/object from the working tree on every run and abstracts EVERY handler of the "
           "object service (all methods of protoobject.ObjectServiceServer plus every exported server method with the same parameter list, e.g. "
           "HeadBuffered/SearchV2Buffered; package-local callees inlined, callees classified by resolved object) into a term of a small language "
           "(Gen/Handlers.lean). Lean proves once, by induction, that the executable checker is sound for ALL runs of a term (any check outcomes, "
           "any branch decisions consistent with them, any number of loop iterations): checker p policy = true implies every effect event of "
           "every run happens in a state the policy allows (checker_sound). For every generated handler the checker is then evaluated in the "
           "kernel (all_handlers_checked quantifies over the generated list, so a new handler is under the obligation automatically): before any "
           "storage access, forwarding or data-carrying response the request signatures verified, no token was refused, request classification, "
           "basic ACL, sticky bit (PUT) and extended ACL passed (eACL 'no rule matched' = basic ACL decides; PUT's ErrSkipRequest skips ACL as the "
           "code does); Replicate stores only after the object signature and both container-node lookups succeeded; a denied signature is "
           "followed by nothing but the answer. Inputs part: the real Server is built over recording fakes and every handler is called with "
           "valid, unsigned, wrongly signed, refused-token, unclassifiable, basic-ACL-denied, sticky-denied, eACL-denied and maintenance requests; "
           "oracle: no fake touched + the right status class; the refusal expected by the model is computed from the regenerated skeleton.",
     note="Proved: soundness of the checker for every term/policy/run; acceptance of every generated handler term. Trusted: the translator "
          "harness/extract/skel.go + its tag table rules.go (which callee is a check/effect/neutral; how branch conditions refine check results; "
          "closures and function values run where created and their checks are not credited to the handler; checks made inside callbacks handed "
          "to getsvc/putsvc - the header-time eACL re-check of GET - are exercised only by C28's scope, not here; regions that touch no check "
          "are summarised to 'their effects in any order'). Assumed: putsvc.Streamer refuses SendChunk/Close before a successful Init "
          "(exercised: scenario chunkfirst); Handlers.Put only allocates the stream (read). Not modelled: the contents of the checks themselves "
          "(C28, C30, C33), payload bytes vs header-time eACL inside pkg/services/object/get. States are packed into naturals for kernel speed; "
          "Lemmas/Handlers.lean proves the packing is a faithful finite map, so the theorems are stated over 'latest outcome of every check in the "
          "history before the effect' (lastOutcomes).",
     rule="every handler found by reflection on the server x 15 scenarios (ok, eACL-not-matched, corrupted signature, missing verification header, "
          "maintenance, refused token, malformed token, unclassifiable sender, container not found, basic ACL, eACL, sticky bit, skip-ACL, chunk "
          "before init; Replicate: bad object signature, container lookup failures) x 5 request variants (ttl, raw flag, session v2 / v1 / bearer "
          "token, tombstone PUT, extra chunk); non-trivial = request refused with zero recorded effects; distinct by op line",
     trusted=["harness/extract/skel.go and rules.go (control-skeleton translator and tag table) are in the trusted base of this property",
              "recording fakes of Handlers/FSChain/Storage/ACLChecker/ACLInfoExtractor/ClientConstructor in harness/eng_rpc.go"],
     assumptions=["putsvc.Streamer.SendChunk/Close refuse a stream that was not initialised (exercised by scenario chunkfirst)",
                  "error constructors (errors.New, fmt.Errorf, status.Error, newBadRequestError) and package-level sentinel errors are non-nil"])
ENGINES.append({"name": "rpc", "path": "harness/eng_rpc.go", "serves_properties": ["C29", "C45", "C32"],
                "kind_free_text": "builds the real object service Server and both control service Servers over recording fakes, drives every "
                                  "handler (enumerated by reflection) with valid and invalid requests; the model answers from the regenerated skeletons"})
