prop("C16",
     theorems=["NeoFS.WCFlush.readable_through_flush", "NeoFS.WCFlush.ack_establishes_safe", "NeoFS.WCFlush.C16_partial",
               "NeoFS.WCFlush.after_flush_in_main", "NeoFS.WCFlush.main_is_stable", "NeoFS.WCFlush.C16_counterexample",
               "NeoFS.WCFlush.swapped_order_read_fails", "NeoFS.WCFlush.swapped_order_loses_object"],
     engines=[dict(name="wcread", quick=1, thorough=1)],
     claim="Lean proves, by induction over EVERY schedule of the model's atomic steps (any number of flusher jobs - single and batch, any "
           "removal order inside a batch, marked in flushObjs -, readers with the two-step cache lookup then main-storage lookup, writers "
           "through the cache or falling through to the main storage, re-puts of the same address, deleters of other addresses, an arbitrary "
           "main-storage failure oracle): once a put of address a is acknowledged the invariant 'a is in the main storage, or accounted and "
           "stored in the cache' holds at every step boundary, a reader whose cache lookup missed finds a in the main storage (objects only move "
           "cache->main: main_is_stable), every read of a that starts after the acknowledgement returns a's bytes, and an address that left "
           "the cache is in the main storage with identical bytes (C16_partial / readable_through_flush / after_flush_in_main). PARTIAL: the "
           "theorem needs the history to contain no delete of a at all; the full statement (no delete AFTER the acknowledged put) is FALSE for "
           "the current code - C16_counterexample (kernel-checked schedule), reproduced on the real shard and recorded as known finding "
           "C16-stale-flush-delete-*: a flusher past its main put removes the newer cache copy of an object deleted and put again in between. "
           "The mutant order (cache delete before main put) is refuted by decide-checked schedules. Tied to a REAL shard with write-cache over "
           "a real FSTree behind a failure-injecting storage: the real flushWorker/flushSingle/flushBatch, Shard.Put/Get/GetBytes/Head/"
           "GetRangeStream/Delete run as logical threads that the harness parks at verifhook points (after read, after main put, between "
           "file and counter removal, after cache delete, between file write and counter add, between counter test and file read, after the "
           "cache miss) - deterministic interleavings, observation after every op = op result + cache files + counters + main storage + "
           "in-flight markers, diffed against the model.",
     note="Proved: everything above, for the model's step granularity. Exercised only: the correspondence of the model with the code at hook "
          "granularity (thorough: ALL interleavings of one flusher x one reader x one re-put for a single and a two-address batch flush incl. a "
          "failing PutBatch with retry; quick: seeded samples of those plus random multi-thread schedules). Assumed/not modelled: the metabase "
          "(the put acknowledges after the metabase put; reads through the metabase are issued only for live objects), mode switches and "
          "reopen (SetMode takes the mode lock exclusively, i.e. runs between flush jobs; Flush(ignoreErrors) is the same flushSingle step), "
          "the timer-driven scheduler (stopped in the harness; batches are handed to the real workers over flushCh as the scheduler does), "
          "preemption inside an atomic step, FSTree/bbolt internals.",
     rule="quick: 40 seeded merges of the three systematic families (single flush x reader x re-put; two-address batch flush x reader x re-put; "
          "failing PutBatch then retry x reader x re-put; the read path rotates over Get/Get-with-metabase/GetBytes/Head/GetRangeStream) + 80 random "
          "schedules of 8..25 ops over 2..4 addresses and 7 logical threads (cache capacity 2 objects so puts fall through; storage failure 1/5); "
          "thorough: ALL merges of the three families (2520 + 560 + 2520) + 1500 random. "
          "non-trivial = at least one op ran while another thread was parked mid-operation; distinct by op sequence",
     trusted=["verifhook pause points are add-only lines; one logical thread runs at a time, so interleavings finer than the hook granularity "
              "(inside FSTree calls, inside counters methods) are covered by the model's atomicity assumption, not by the run"],
     assumptions=["each atomic step of the model (one FSTree call, one counters call under its mutex, one main-storage call) is atomic in the code",
                  "every put of one address carries the same bytes (the address is the object's hash)"])

ENGINES.append({"name": "wcread", "path": "harness/eng_wcread.go", "serves_properties": ["C16"],
                "kind_free_text": "schedule driver: real shard + write-cache + failure-injecting FSTree, logical threads parked at verifhook points, against Model/WCFlush.lean"})
