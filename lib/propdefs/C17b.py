# extension of C17 (defined in lib/props.py): model of the background flush scheduler (Props/C17b.lean, engine wcsched)
_p = PROPS["C17"]
_p["theorems"] = _p["theorems"] + [
    "NeoFS.WCSched.scheduler_no_leak", "NeoFS.WCSched.scheduler_hands_over_everything", "NeoFS.WCSched.markers_always_owned",
    "NeoFS.WCSched.eventually_flushed", "NeoFS.WCSched.scheduler_leak_before_fix", "NeoFS.WCSched.original_scheduler_drops_last_address",
    "NeoFS.WCFlush.worker_exit_clears_markers",
    "NeoFS.WCSched.batches_never_overwritten", "NeoFS.WCSched.worker_unmarks_its_batch", "NeoFS.WCSched.buffers_refine",
    "NeoFS.WCSched.markers_always_owned_buffers", "NeoFS.WCSched.eventually_flushed_buffers", "NeoFS.WCSched.buffer_reuse_leaks"]
_p["lean_modules"] = _p["lean_modules"] + ["NeoFS.Props.C17b"]
_p["engines"] = _p["engines"] + [dict(name="wcsched", quick=1, thorough=1)]
_p["claim"] += (" EXTENSION (Props/C17b.lean, Model/WCSched.lean): a model of flushScheduler's batch cutting (marking in flushObjs, big objects alone, "
                "count/size limits, the hand-over select answered by a worker or by an error signal) and of the marker bookkeeping. Proved for ALL "
                "configurations, candidate lists and answer sequences: every marker a pass sets is owned by a batch handed to a worker or removed by "
                "the pass (scheduler_no_leak); a worker thread clears the markers of its job on every exit - success, failed put, file gone "
                "(worker_exit_clears_markers, on the C16 thread model); hence over ALL histories of puts, passes and job ends every marker has a "
                "running job (markers_always_owned); when workers take every batch a pass hands over every candidate exactly once "
                "(scheduler_hands_over_everything); and from ANY such state the fair continuation - running jobs end, one pass, its jobs end, storage "
                "accepting - leaves the cache empty with no marker (eventually_flushed). Two defects of the real scheduler were found by this model and "
                "its tie, replayed, repaired (fix commits) and are kept as decide-checked negative theorems about the unrepaired loop "
                "(original_scheduler_drops_last_address, scheduler_leak_before_fix). Tied to the REAL timer-driven scheduler and ONE real worker over a "
                "recording, failure-injecting storage: per case the batches the storage received, the markers left with idle workers, and (wait=1) "
                "the state after the 10 s back-off. FLUSHES THAT SPAN PASSES (BSys in Model/WCSched.lean): a batch is a window of the pass's "
                "sorted-address array which the worker reads again when it is done; the model keeps the arrays and distinguishes what a job was "
                "GIVEN from what its window holds NOW. Proved over ALL histories (job ends at any distance from their hand-over, any number of "
                "passes in between): no pass changes the window of a running job (batches_never_overwritten), so a worker that is done unmarks "
                "every address it was given (worker_unmarks_its_batch); the array-level system refines the marker bookkeeping (buffers_refine), "
                "hence every marker has a running job that was given it (markers_always_owned_buffers) and the fair continuation empties the "
                "cache from any such state (eventually_flushed_buffers); an array kept between the passes leaks the marker of a stalled-then-failed "
                "flush for ever (buffer_reuse_leaks, decide-checked negative theorem). Tied by op `span`: rounds of puts, one REAL scheduler pass "
                "per round, while the first main-storage call carrying a chosen id is held open inside the storage (one more worker than held "
                "calls), then the held calls end ok/failed; at every quiescent point the calls the storage received, cache files and the REAL "
                "flushObjs markers are compared with the model and the oracles are evaluated: markers = addresses of the held calls, a finished "
                "worker has unmarked what it was given, no object reaches the storage twice at once, cache empty and main storage complete "
                "after the back-off.")
_p["note"] += (" Extension: fairness itself (the ticker fires, workers are scheduled, the storage eventually accepts) is an assumption of "
               "eventually_flushed, stated as the explicit 3-phase continuation; the 1 s tick and 10 s back-off are real time in the run "
               "(cases run concurrently; a case whose timing was disturbed is repeated); equal sizes are avoided (Go map order decides ties). span: passes are the real 1 s ticks; the harness makes the scheduler skip a tick "
               "(fault point writecache.flush.scheduler, dispatched to the case through the creator goroutine of the scheduler) while a round's puts or "
               "the end of a held call are in progress, and awaits quiescence by polling the property's own condition with an 8 s timeout.")
_p["rule"] += ("; wcsched: 4 boundary cases + 10 (quick) / 60 (thorough) seeded cases of 1..8 objects on both sides of the batch threshold, count limit "
               "2/3/128, size limit 900/1e6, failing storage call 0..3, two (thorough: a quarter) with the 10 s back-off; non-trivial = a storage call fails; span: 7 corpus cases + 8 (quick) / 40 (thorough) seeded cases of 2..3 rounds of "
               "1..4 objects, 1..2 held calls ending ok/failed (a failure is followed through the back-off); non-trivial = a held call and more than one round")
ENGINES.append({"name": "wcsched", "path": "harness/eng_wcsched.go", "serves_properties": ["C17"],
                "kind_free_text": "runs the real flushScheduler (1 s tick, 10 s back-off) and real workers over a recording, failure-injecting, call-holding storage against Model/WCSched.lean"})
