prop("C32",
     theorems=["NeoFS.Handlers.checker_sound", "NeoFS.Handlers.checker_sound_view", "NeoFS.C32.control_handlers_checked", "NeoFS.C32.control_effects_follow_signature_check",
               "NeoFS.C32.denied_signature_no_effect", "NeoFS.C32.isValid_iff"],
     engines=[dict(name="rpc", quick=1, thorough=1)],
     claim="Every method of control.ControlServiceServer (storage node, 12 methods now) and of the inner ring's ControlServiceServer (4 methods) is "
           "re-extracted from the working tree on every run into a term (isValidRequest is package-local and therefore inlined into each "
           "handler; enumeration is from the interface, so a new method is covered automatically). Lean proves over ALL runs of every such term "
           "that every effect - any call into the storage engine, node state, health checker, notary manager, placement or replicator, and any "
           "response - is preceded by a neofscrypto.Signature.Verify over the signed request data whose latest answer was 'valid', and that nothing but "
           "the answer happens while that verification stands failed. The acceptance condition of isValidRequest is modelled by hand and proved "
           "to be exactly: signature present, key in the configured list, body marshals, key decodes, signature verifies over the body "
           "(isValid_iff, all lists/requests). Inputs part: both real servers (storage node: real one-shard engine, recording node state and "
           "health checker; inner ring: recording notary manager) and every method found by reflection called with no signature, a valid "
           "signature by an unconfigured key, a configured key over a body changed after signing, broken signature bytes and a correct "
           "signature: PermissionDenied with no recorded call and unchanged shard state, or passed.",
     note="Proved: dominance of the signature verification over all effects in every generated control handler; the decision table of the hand "
          "model. Only exercised (not proved from source): that the allowed-key scan inside isValidRequest is what the hand model says - the "
          "translator sees the scan as an opaque branch, so REMOVING the allowed-key test is caught by the dynamic 'wrongkey' requests, not by "
          "the static theorem. Trusted: translator harness/extract (skel.go, rules.go); ECDSA/SHA-512 and protobuf marshalling of the signed "
          "body (ideal signature: sigValid is a fact about (key, body, signature)). The two sign.go files are read to be identical up to an "
          "import and a message text.",
     rule="16 methods (both services, by reflection) x 5 request kinds (correct, none, unconfigured key, body changed after signing, broken "
          "signature bytes); non-trivial = denied with PermissionDenied, zero recorded dependency calls and unchanged shard state; distinct by op line",
     trusted=["harness/extract/skel.go and rules.go (control-skeleton translator and tag table)",
              "harness/eng_rpc_ctl.go (reflection-built requests, recording fakes)"],
     assumptions=["neofscrypto.Signature.Verify and neofsecdsa key decoding behave as an ideal signature scheme"])
