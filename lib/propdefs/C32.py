prop("C32",
     theorems=["NeoFS.Handlers.checker_sound", "NeoFS.Handlers.checker_sound_view", "NeoFS.C32.control_handlers_checked", "NeoFS.C32.control_effects_follow_signature_check",
               "NeoFS.C32.denied_signature_no_effect", "NeoFS.C32.isValid_iff",
               "NeoFS.C32.concurrent_verdicts_are_sequential", "NeoFS.C32.scheduled_request_is_decided",
               "NeoFS.C32.forged_request_never_accepted", "NeoFS.C32.genuine_request_accepted",
               "NeoFS.C32.barrier_verdicts_are_sequential", "NeoFS.C32.scratch_buffer_allows_forgery",
               "NeoFS.C32.auth_path_shares_nothing_mutable"],
     engines=[dict(name="rpc", quick=1, thorough=1)],
     claim="Every method of control.ControlServiceServer (storage node, 12 methods now) and of the inner ring's ControlServiceServer (4 methods) is "
           "re-extracted from the working tree on every run into a term (isValidRequest is package-local and therefore inlined into each "
           "handler; enumeration is from the interface, so a new method is covered automatically). Lean proves over ALL runs of every such term "
           "that every effect - any call into the storage engine, node state, health checker, notary manager, placement or replicator, and any "
           "response - is preceded by a neofscrypto.Signature.Verify over the signed request data whose latest answer was 'valid', and that nothing but "
           "the answer happens while that verification stands failed. The acceptance condition of isValidRequest is modelled by hand and proved "
           "to be exactly: signature present, key in the configured list, body marshals, key decodes, signature verifies over the body "
           "(isValid_iff, all lists/requests). Inputs part: both real servers (storage node: real one-shard engine, recording node state and "
           "health checker; inner ring: recording notary manager) and every method found by reflection called with no signature, a valid "
           "signature by an unconfigured key, a configured key over a body changed after signing, broken signature bytes and a correct "
           "signature: PermissionDenied with no recorded call and unchanged shard state, or passed. Concurrent part: ONE server, any "
           "set of requests in flight, each a thread of atomic steps (key scan, marshal the signed data into the request's own buffer, "
           "decode the key, verify): Lean proves that under EVERY interleaving a decided request has exactly the verdict isValidRequest "
           "gives it alone (concurrent_verdicts_are_sequential), that four own steps decide it (scheduled_request_is_decided), hence a "
           "request carrying a signature made over another body is never accepted and a genuine one always is, whatever runs beside it; "
           "and that this is a property of the buffer discipline: with one server-owned scratch buffer read after the marshalling step a "
           "forged request is accepted next to a replay of the genuine one (scratch_buffer_allows_forgery). Op `crace` runs this against one "
           "real server of each service: per method three bodies of equal encoded length, genuine requests of two configured keys replayed "
           "together with requests carrying the Signature copied from a genuine request over another body, a valid signature of an "
           "unconfigured key, none, damaged bytes; sync=1 lines the requests up at the hook points after the key scan and before Signature.Verify and "
           "releases them together (every request has marshalled before any verifies), sync=0 re-sends them uncoordinated (volume).",
     note="Proved: dominance of the signature verification over all effects in every generated control handler; the decision table of the hand "
          "model. Only exercised (not proved from source): that the allowed-key scan inside isValidRequest is what the hand model says - the "
          "translator sees the scan as an opaque branch, so REMOVING the allowed-key test is caught by the dynamic 'wrongkey' requests, not by "
          "the static theorem. Trusted: translator harness/extract (skel.go, rules.go); ECDSA/SHA-512 and protobuf marshalling of the signed "
          "body (ideal signature: sigValid is a fact about (key, body, signature)). The two sign.go files are read to be identical up to an "
          "import and a message text. The concurrent model's step granularity is chosen by hand; that its steps are request-local is tied "
          "to the code twice: (1) regenerated facts Gen/CtlShared.lean (harness/extract/ctlshared.go, syntactic): the authorisation path of both "
          "servers - isValidRequest and the package functions it calls - assigns, slices or takes the address of no field of "
          "the server and no package variable, and no server method assigns a field it reads (auth_path_shares_nothing_mutable, decide over "
          "the regenerated lists); method calls ON a field or package variable (sync.Pool, sync.Map, a mutex) and fields passed whole to a call "
          "are not seen by these facts; a server-owned buffer that IS correctly locked across the verification also fails this theorem "
          "(reported without a failing input: the model then has to be extended by the lock); (2) the forced schedule and the volume runs of op `crace`, which "
          "sample interleavings rather than prove them.",
     rule="16 methods (both services, by reflection) x 5 request kinds (correct, none, unconfigured key, body changed after signing, broken "
          "signature bytes); non-trivial = denied with PermissionDenied, zero recorded dependency calls and unchanged shard state; distinct by op line; "
          "op crace: per service all methods together and each method alone, lined up before the verification (sync=1) and uncoordinated "
          "(sync=0); non-trivial = both passed and denied requests in one op",
     trusted=["harness/extract/skel.go and rules.go (control-skeleton translator and tag table)",
              "harness/extract/ctlshared.go (syntactic shared-state facts of the authorisation path)",
              "harness/eng_rpc_ctl.go (reflection-built requests, recording fakes)",
              "harness/eng_rpc_ctlrace.go (equal-length body variants, barriers at the hook points {ctl,irctl}.auth.afterKeyScan and {ctl,irctl}.auth.beforeVerify)"],
     assumptions=["neofscrypto.Signature.Verify and neofsecdsa key decoding behave as an ideal signature scheme"])
