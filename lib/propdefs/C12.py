prop("C12",
     theorems=["NeoFS.FSTree.crash_safe", "NeoFS.FSTree.crash_safe_at", "NeoFS.FSTree.acked_survive", "NeoFS.FSTree.tmp_invisible",
               "NeoFS.FSTree.delete_crash_atomic", "NeoFS.FSTree.crash_freezes_sbWrite", "NeoFS.FSTree.crash_freezes_writeFile",
               "NeoFS.FSTree.crash_freezes_intSync", "NeoFS.FSTree.faults_fail_cleanly", "NeoFS.FSTree.ok_means_readable",
               "NeoFS.FSTree.generic_put_safe",
               "NeoFS.FSTree.api_crash_safe", "NeoFS.FSTree.api_acked_survive", "NeoFS.FSTree.reput_keeps_object",
               "NeoFS.FSTree.crash_images_safe", "NeoFS.FSTree.api_step_safe",
               "NeoFS.FSTree.generic_writers_safe", "NeoFS.FSTree.two_writers_one_address", "NeoFS.FSTree.gsched_inv",
               "NeoFS.FSTree.gstep_ginv", "NeoFS.FSTree.machine_eq_genericWrite", "NeoFS.FSTree.put_generic_is_machine",
               "NeoFS.FSTree.generic_put_keeps_visible"],
     engines=[dict(name="fstree", quick=1, thorough=1)],
     claim="Process-crash model: the oracle value `crash p` at system call n stops the process there (a write in progress may have "
           "appended p bytes); the rest of the run does nothing to names and bytes (crash_freezes_*); recovery drops descriptors, "
           "the in-memory batch, locks and unnamed O_TMPFILE inodes, keeps linked inodes, and runs CleanUpTmp. Because the C13 "
           "invariant is proved for EVERY oracle it holds at EVERY crash point of EVERY schedule of Put / PutBatch / Delete steps "
           "on the O_TMPFILE writer: after recovery every visible address reads, through Get and GetStream, as exactly one payload "
           "offered for that address - never a partial record, never another object's bytes (crash_safe; the record is complete in "
           "the inode before its linkat, readers stop at the length prefix, torn tails after the last linked member are skipped); "
           "everything readable before a later write's crash stays readable with identical bytes (acked_survive, with "
           "ok_means_readable: a Put that returned ok is readable); leftover temporary names are never looked at by any reader "
           "(tmp_invisible); a delete is a single unlink (delete_crash_atomic). Tied to the real code by running the op in a child "
           "process that exits at a chosen system call, then reopening the tree in the parent. "
           "CALL SEQUENCES KILLED AT ANY SYSTEM CALL (process-kill consistency: what the kernel has taken - the page cache - "
           "survives; no power loss): runApi keeps one system-call index over Put / PutBatch / Delete calls of one process, so "
           "crashAt n is a kill between ANY two system calls, also where the code has no hook point; for every oracle every "
           "visible address reads exactly one offered payload (api_crash_safe, crash_images_safe) and whatever was readable - "
           "acknowledged long before - stays readable with identical bytes through later calls, puts of the SAME address "
           "included, wherever they are killed (api_acked_survive, reput_keeps_object: the writer never takes an existing name "
           "away). Tied to the real code by op kseq: a child process runs the calls on one OS thread under "
           "strace -f -e inject=<call>:error=EIO:signal=SIGKILL:when=<k> once for every file system call of the sequence. "
           "CONCURRENT CALLERS OF THE PORTABLE WRITER: gstep is one system call of one caller (open p#i O_EXCL / write / close / "
           "rename), gsched an arbitrary interleaving of any number of callers; for every oracle, schedule and prefix (= stop "
           "point) every visible address reads exactly one complete offered payload, an acknowledged caller's address is "
           "visible, other addresses read the same, no name disappears (generic_writers_safe, two_writers_one_address; "
           "invariant GInv: a temporary file is owned by the one caller that created it, no object name points to it, it is "
           "renamed only when it holds the whole payload); one caller alone is exactly genericWrite (machine_eq_genericWrite), hence a Put of the portable writer killed anywhere keeps every visible address visible with a complete offered payload (generic_put_keeps_visible: it replaces, it never takes away). "
           "Tied to the real code by op gsched: callers parked at the hook points after open / write / close of the portable "
           "writer, released one system call at a time; after every step the directory image is checked.",
     note="Process crash only: no power loss, no reordering of buffered writes by the kernel, fdatasync has no modelled effect. "
          "Proved for the O_TMPFILE writer (single file, combined batch, PutBatch, schedules of them) and Delete; for the portable "
          "writer a single Put is proved safe at every crash point (generic_put_safe holds for every oracle: p#i created / written / "
          "renamed - the name changes only by the rename, after the payload is complete) and its crash points are exercised by the "
          "same run (every fourth history). "
          "Crash points are the boundaries after each system call (verifhook.Point after the call); a stop inside a writev with a "
          "torn record is covered by the theorem (parameter p) but only exercised at p = 0 / full. "
          "kseq kills BEFORE a system call executes (error injection + SIGKILL), on the thread that runs the calls; the batch "
          "timer's close on another thread is not a kill point of its own (it changes no name and no byte). gsched images are "
          "copies of the directory taken while every caller is parked (no call in flight), plus real process exits (c=N). "
          "PutBatch of the portable writer in kseq is exercised and compared with the model, its theorem is the single Put's.",
     rule="12 (quick) / 720 (thorough) seeded histories of six kinds. Kinds 0-3 over 8 addresses (count limit 2/3/128, size limit 400/100000). Each history "
          "enumerates EVERY stop point of one kind of write in turn - kind = combined put / single-file put (above the threshold) / "
          "PutBatch of three / put on the portable writer: the op runs in a child process that exits at system call c for every "
          "c = 0..5 (puts: before open, after open, write, link or close, close or rename, completed) or c = 0..9 (batch: open, "
          "3 x writev+linkat, close, completed), on fresh addresses, next to objects stored before; then a delete at both of its "
          "stop points, then 3..7 random ops of which a quarter crash at call 0..8. The parent reopens the tree, runs CleanUpTmp "
          "and dumps every object; model: the same op under the oracle crashAt, then recover. Oracle: every listed object has "
          "exactly its address's bytes; every acknowledged, not deleted object is still listed. non-trivial = history > 4 ops; "
          "distinct by history. Kind 4 (kseq): four call sequences per history on a fresh tree each - an object put again "
          "(single-file and combined writer), put again inside a PutBatch, deleted and put again, put with another stored form, "
          "and a random sequence over 2-3 addresses - killed before EVERY file system call of the sequence (open/openat, "
          "write/writev/pwrite64, link/linkat, unlink/unlinkat, rename*, close, fdatasync/fsync, (f)truncate, mkdir*) in turn, "
          "6-30 kills per sequence, every second such history on the portable writer; after each kill: reopen, CleanUpTmp, every "
          "acknowledged and not deleted object listed by Iterate and returned by GetBytes with exactly its bytes, every listed "
          "object exactly its address's bytes, Iterate = GetBytes; the set of distinct post-kill dumps equals the model's "
          "crashImages. Kind 5 (gsched): portable writer; caller 1 entering between any two system calls of caller 0 "
          "(4 schedules), then 4-6 random interleavings of two or three callers of one address (a third of another), a third "
          "of them ending in a real process exit after a random number of steps; the image after EVERY step is checked",
     trusted=["bytes handed to the kernel and linked names survive a process exit (os.Exit in the child)",
              "Model/FSTree.lean writers are a hand transcription, tied by the correspondence run"],
     assumptions=["process crash, not power loss", "linkat/rename/unlink are atomic"])
