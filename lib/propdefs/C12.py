prop("C12",
     theorems=["NeoFS.FSTree.crash_safe", "NeoFS.FSTree.crash_safe_at", "NeoFS.FSTree.acked_survive", "NeoFS.FSTree.tmp_invisible",
               "NeoFS.FSTree.delete_crash_atomic", "NeoFS.FSTree.crash_freezes_sbWrite", "NeoFS.FSTree.crash_freezes_writeFile",
               "NeoFS.FSTree.crash_freezes_intSync", "NeoFS.FSTree.faults_fail_cleanly", "NeoFS.FSTree.ok_means_readable",
               "NeoFS.FSTree.generic_put_safe"],
     engines=[dict(name="fstree", quick=1, thorough=1)],
     claim="Process-crash model: the oracle value `crash p` at system call n stops the process there (a write in progress may have "
           "appended p bytes); the rest of the run does nothing to names and bytes (crash_freezes_*); recovery drops descriptors, "
           "the in-memory batch, locks and unnamed O_TMPFILE inodes, keeps linked inodes, and runs CleanUpTmp. Because the C13 "
           "invariant is proved for EVERY oracle it holds at EVERY crash point of EVERY schedule of Put / PutBatch / Delete steps "
           "on the O_TMPFILE writer: after recovery every visible address reads, through Get and GetStream, as exactly one payload "
           "offered for that address - never a partial record, never another object's bytes (crash_safe; the record is complete in "
           "the inode before its linkat, readers stop at the length prefix, torn tails after the last linked member are skipped); "
           "everything readable before a later write's crash stays readable with identical bytes (acked_survive, with "
           "ok_means_readable: a Put that returned ok is readable); leftover temporary names are never looked at by any reader "
           "(tmp_invisible); a delete is a single unlink (delete_crash_atomic). Tied to the real code by running the op in a child "
           "process that exits at a chosen system call, then reopening the tree in the parent.",
     note="Process crash only: no power loss, no reordering of buffered writes by the kernel, fdatasync has no modelled effect. "
          "Proved for the O_TMPFILE writer (single file, combined batch, PutBatch, schedules of them) and Delete; for the portable "
          "writer a single Put is proved safe at every crash point (generic_put_safe holds for every oracle: p#i created / written / "
          "renamed - the name changes only by the rename, after the payload is complete) and its crash points are exercised by the "
          "same run (every fourth history). "
          "Crash points are the boundaries after each system call (verifhook.Point after the call); a stop inside a writev with a "
          "torn record is covered by the theorem (parameter p) but only exercised at p = 0 / full.",
     rule="8 (quick) / 600 (thorough) seeded histories over 8 addresses (count limit 2/3/128, size limit 400/100000). Each history "
          "enumerates EVERY stop point of one kind of write in turn - kind = combined put / single-file put (above the threshold) / "
          "PutBatch of three / put on the portable writer: the op runs in a child process that exits at system call c for every "
          "c = 0..5 (puts: before open, after open, write, link or close, close or rename, completed) or c = 0..9 (batch: open, "
          "3 x writev+linkat, close, completed), on fresh addresses, next to objects stored before; then a delete at both of its "
          "stop points, then 3..7 random ops of which a quarter crash at call 0..8. The parent reopens the tree, runs CleanUpTmp "
          "and dumps every object; model: the same op under the oracle crashAt, then recover. Oracle: every listed object has "
          "exactly its address's bytes; every acknowledged, not deleted object is still listed. non-trivial = history > 4 ops; "
          "distinct by history",
     trusted=["bytes handed to the kernel and linked names survive a process exit (os.Exit in the child)",
              "Model/FSTree.lean writers are a hand transcription, tied by the correspondence run"],
     assumptions=["process crash, not power loss", "linkat/rename/unlink are atomic"])
