ENG_RULE = ("150 (quick) / 6000 (thorough) seeded histories of 9..33 ops over a REAL engine with 1..4 real shards (metabase + FSTree behind a "
            "blob read/write fault wrapper), error threshold 0/2/3, 8 object ids with one fixed header each (4 regular objects with/without "
            "expiration, 2 tombstones, 2 locks with random targets): put / get / head / delete (garbage mark) / drop / is-locked / set-mode "
            "(5 modes, with/without counter reset) / fail(shard, read, write) / epoch / GC pass / evacuate; every op carries its own shard "
            "visiting orders (sorted and unsorted) applied through the verif order hook; after EVERY op the result and, per shard, mode, "
            "error counter, Exists code, blob presence and IsLocked of all 8 ids are compared with the model; non-trivial = history > 6 ops; "
            "distinct by history")

prop("C08",
     theorems=["NeoFS.Engine.protected_served", "NeoFS.Engine.protected_retrievable", "NeoFS.Engine.tombstone_rejected_keeps",
               "NeoFS.Engine.gc_marks_keeps_protected", "NeoFS.Engine.protected_epoch", "NeoFS.Engine.protected_not_collected",
               "NeoFS.Engine.engine_rejects_tombstone_of_locked", "NeoFS.Engine.existsLoop_frame", "NeoFS.Engine.rollback_left_garbage",
               "NeoFS.Engine.locked_retrievable_partial", "NeoFS.Engine.C08_counterexample"],
     engines=[dict(name="eng", quick=1, thorough=1)],
     claim="PARTIAL. Lean proves, for every shard state and every epoch at which the lock is alive, with the lock indexed on the shard that "
           "holds the object (Protected): the shard serves the object even after the object's own expiration; the engine returns it for "
           "EVERY visiting order, whatever modes/failures the other shards have, as long as no other shard reports it removed/expired "
           "(via C20); a tombstone put on that shard is refused and leaves index, marks and the object's blob untouched; a GC pass over the "
           "marks, the expired-object collector and epochs below the lock's expiration keep Protected. At engine level: a tombstone for an "
           "object that any shard reports locked is refused before any shard is touched, for all probe/broadcast orders, and no shard's "
           "index/blobs/marks change (engine_rejects_tombstone_of_locked). These are per-operation step theorems: the induction over ALL "
           "engine histories is NOT done. One genuine defect was REPAIRED (fix e83ea0b: a tombstone refused by a lock on another shard left "
           "its garbage mark on the shards visited earlier - rollback removes the tombstone object only - so the locked object was not found "
           "and deleted by the next GC pass; replayed on the real engine, kept as decide-checked rollback_left_garbage). The full statement is "
           "FALSE for the current code when the lock did not reach the shard holding the object (holder read-only/degraded when the lock was "
           "broadcast): C08_counterexample, recorded as a known finding. Retrievability for every order is evaluated on the real shards after "
           "EVERY op for every accepted unexpired lock.",
     note="Trusted: Lean kernel; Model/Engine.lean (correspondence). Concurrent lock/tombstone broadcasts (interleavings at shard "
          "granularity) are NOT modelled: broadcasts are atomic ops of a history, every visiting order of each is covered. Forced removals "
          "(Delete/Drop, which override locks by design) end the oracle's obligation for the object; read failures on a holder suspend it.",
     rule=ENG_RULE + "; locks: 2 of 8 ids are lock objects (random targets, optional expiration), accepted-lock shadow kept per history",
     assumptions=["lock acceptance is only claimed for objects stored WITH metadata on some shard (a blob written in degraded mode is not indexed anywhere)"])
