prop("C33",
     theorems=["NeoFS.SigChain.accepts_iff", "NeoFS.SigChain.walk_chain_iff", "NeoFS.SigChain.walk_flat_iff",
               "NeoFS.SigChain.entry_iff", "NeoFS.SigChain.needsSignature_false_iff", "NeoFS.SigChain.no_exemption_with_header",
               "NeoFS.SigChain.verifyReq_no_nilDeref", "NeoFS.SigChain.walk_layer_bound",
               "NeoFS.SigChain.tamper_body", "NeoFS.SigChain.tamper_meta", "NeoFS.SigChain.tamper_origin",
               "NeoFS.SigChain.depth_mismatch_rejected", "NeoFS.SigChain.outer_body_sig_rejected",
               "NeoFS.SigChain.bindingScheme_binding", "NeoFS.SigChain.flat_variant_ignores_inner_layers",
               "NeoFS.SigChain.author_is_verified_signer", "NeoFS.SigChain.author_is_verified_signer_entry",
               "NeoFS.SigChain.author_no_panic_when_accepted", "NeoFS.SigChain.forwarded_chain_has_no_author",
               "NeoFS.SigChain.innermost_author_unverified"],
     engines=[dict(name="sigchain", quick=1, thorough=1)],
     claim="Lean proves, for EVERY request (any depth of the meta and verification chains, any layer contents), every signature primitive "
           "(an arbitrary decision function: no cryptography is proved) and both protocol variants, by induction over the verification chain: "
           "the model of neofscrypto.VerifyRequestWithBufferN3 answers ok IF AND ONLY IF a verification header is present and (chain variant: "
           "outermost meta version absent or < 2.25) both chains have the same depth, every layer's meta signature checks over that layer's meta "
           "header encoding, every layer's origin signature checks over the next verification header's encoding, the innermost body signature "
           "checks over the body and no outer layer carries a body signature; (>= 2.25 variant) the outermost layer's meta and body signatures "
           "check (accepts_iff). entry_iff: through the three entry points of internal/crypto/requests.go a request is let through iff that holds or, "
           "only through the two context-aware entry points, it has NO verification header, a meta header with TTL exactly 1 and an authenticated "
           "peer; a present header is never exempt. Under the ideal-scheme hypothesis Binding (one signature value is accepted for at most one "
           "message; shown satisfiable) changing the body, any checked layer's meta header, or anything below any layer of the verification chain "
           "of an accepted request makes it rejected; a depth mismatch and an outer body signature are rejected whatever the signatures; the "
           "depth check makes the loop's nil dereference unreachable. WHOSE request it is (GetRequestAuthor, the key the ACL layer classifies): "
           "for every accepted request the author, if one is named, is the key of the TOP verification header's body signature and the check "
           "of exactly that (key, scheme, signature) over exactly the request's body was performed successfully by verification "
           "(author_is_verified_signer, also through the entry points); GetRequestAuthor's dropped key-decoding error cannot hit an accepted "
           "request; an accepted forwarded request of the chain variant has no author (top layer without body signature, origins are not "
           "consulted); the historical rule 'descend to the innermost header' does NOT satisfy the statement (kernel-checked witness). Tied to the real icrypto.VerifyRequestSignatures / WithContext / N3 by a "
           "differential run on really signed requests (ECDSA SHA-512, RFC 6979, WalletConnect, N3 witnesses through a table script runner) of "
           "depth 1-4 re-signed as forwarding does and then mutated; verdict, depth, error cause and the answer of the real GetRequestAuthor "
           "(key name / failure / panic) are compared line by line; oracle on the real outputs: the author of an accepted request is the key "
           "of a body signature that verification examined and that the harness itself made over this very body.",
     note="Proved: the acceptance logic over an abstract signature primitive. Exercised only: that the SDK's chain walk (code outside /repo, "
          "module neofs-sdk-go) and the repo's wrappers behave as Model/SigChain.lean on the generated requests; the model's verify table is "
          "'this (key, scheme, signature) value was produced by the harness for exactly these bytes' and is computed without asking the real "
          "verifier. Assumed: ECDSA / SHA / RFC 6979 / WalletConnect and N3 script execution are ideal (Binding); stable marshalling is injective. "
          "As the code has it (flat_variant_ignores_inner_layers): when the outermost meta header states version >= 2.25 the inner verification "
          "headers are not examined at all (API 2.25 deprecates origins; the outermost signer covers body and the whole nested meta chain) - "
          "'every layer' then means the single outermost layer; consumers that still walk the origin chain (cmd/neofs-node/reputation.go "
          "reverseRoute) read unauthenticated keys in that variant. GetRequestAuthor itself does not look below the top layer (modelled, "
          "requestAuthor); key bytes are named by small ids (8 ECDSA keys, their N3 scripts, one undecodable key).",
     rule="grid: depth 1..4 x version {2.18, 2.25, none} x every layer x every signature kind x {flip a signature byte, nil it, empty key, "
          "undecodable key, other key, other scheme, empty signature, valid re-sign by another key} plus per layer drop/duplicate/truncate of one "
          "chain, swap of adjacent layers, meta edits (epoch, ttl, x-header, version up/down/nil), body edits, nil headers; the exemption table "
          "api x trusted x ttl 0..3 x header/meta present; the author grid: "
          "existing requests of 1..3 layers (inner version 2.18 / 2.25 / none) taken by another key, body kept or changed, wrapped into a top "
          "meta header of version {2.24, 2.25, 2.26, 3.0, 1.99, none} and signed as forwarding does, or re-signed in place at the top layer; "
          "N3 authors and scheme/key defects of the top body signature; N3 witnesses through all three entry points; 1500 (quick) / 40000 (thorough) seeded "
          "requests with mixed versions/schemes and 0..3 mutations incl. honest extra hops and copied signatures; non-trivial = at least two "
          "verification layers and at least one mutation; distinct by op",
     trusted=["neofs-sdk-go crypto/proto.go VerifyRequestWithBufferN3 is hand-modelled (Model/SigChain.lean) and tied by correspondence only",
              "the harness's abstraction of a real request (message ids by marshalled bytes, signature table) in harness/eng_sigchain.go"],
     assumptions=["signature schemes are ideal: a (key, scheme, signature) value verifies for exactly the bytes it was made for (Binding)",
                  "N3 witnesses are checked by a table-driven script runner in the run, not by a NeoVM"])
ENGINES.append({"name": "sigchain", "path": "harness/eng_sigchain.go", "serves_properties": ["C33", "C31"],
                "kind_free_text": "builds really signed 1-4 layer requests, mutates them and runs the real icrypto.VerifyRequestSignatures* against Model/SigChain.lean"})
