ENGINES.append({"name": "resync", "path": "harness/eng_resync.go", "serves_properties": ["C18"],
                "kind_free_text": "the real meta.DB.ResyncFromBlobstor over a blob storage that hands the stored objects over in a chosen "
                                  "order (all permutations of small sets), the real meta.DB.PutBatch on incrementally built states, and "
                                  "incremental DB.Put histories followed by a rebuild, against Model/Resync.lean; order-independence, "
                                  "reclaim and rebuild-equals-incremental oracles"})

prop("C18",
     theorems=["NeoFS.Resync.resync_perm_invariant_partial", "NeoFS.Resync.resync_gc_reclaims_partial",
               "NeoFS.Resync.resync_eq_incremental_partial", "NeoFS.Resync.resync_interleaving_partial",
               "NeoFS.Resync.C18_counterexample", "NeoFS.Resync.C18_counterexample_reclaim",
               "NeoFS.Resync.order_dependent_tombstone_vs_children", "NeoFS.Resync.order_dependent_lock_vs_tombstone",
               "NeoFS.Resync.order_dependent_expired_vs_lock", "NeoFS.Resync.order_dependent_abort",
               "NeoFS.Resync.order_dependent_unmarked_child",
               "NeoFS.Resync.putChainNR_spec", "NeoFS.Resync.resyncB_of_runSeq", "NeoFS.Resync.bucket_of_fold",
               "NeoFS.Resync.Inv.step", "NeoFS.Resync.plain_runSeq", "NeoFS.Resync.plain_views_eq"],
     engines=[dict(name="resync", quick=1, thorough=1)],
     claim="PARTIAL; the full property is FALSE for the current code. Model: Model/Resync.lean (ResyncFromBlobstor = Reset + batches of "
           "resyncBatchSize through PutBatch; PutBatch = per-object db.put in one shared transaction, 'already removed'/'expired'/'locked' "
           "skipped WITHOUT rolling back what the skipped object's put wrote, any other error rolls the batch back and stops the rebuild) on "
           "the metabase model Model/Meta.lean. Kernel-checked counterexamples (C18_counterexample : not C18_full, order_dependent_*; each "
           "replayed on the real metabase from corpus/resync on every run): (a) tombstone met before the children of a split object - children "
           "skipped, never indexed, no garbage key, blob unreclaimable; (b) LOCK vs TOMBSTONE of one target - first met wins; (c) children of "
           "an expired split object met before its LOCK are skipped; (d) a lock/tombstone whose target id is a tombstone/lock object makes the "
           "whole rebuild FAIL when met after its target; (e) a child carrying only the parent ID met after the parent's tombstone is indexed, "
           "reported removed and never listed by GetGarbage. Recorded as known findings C18-order-dependent(-abort/-orphan-blob/-unmarked-child), "
           "not repaired (a canonical order needs a second pass over the blob storage or unbounded buffering). "
           "Proved for ALL inputs: resync_perm_invariant_partial - for every rebuild epoch, every list of unsplit objects over any number of "
           "containers satisfying the decidable predicate plainObjs (per container: regular objects with or without expiration, tombstones, "
           "locks, distinct non-zero ids; no tombstone/lock targets a tombstone/lock; no id is the target of both a tombstone and a lock; a "
           "tombstone's target has no expiration) and EVERY permutation: both rebuilds succeed and DB.Exists and DB.IsLocked answer the same "
           "for every address (id != 0) at every later epoch - proved by an invariant of the bucket under any order (the bucket contents "
           "themselves DO depend on the order: a target met after its tombstone is not indexed); resync_gc_reclaims_partial - in that "
           "fragment every stored object is indexed or carries a garbage key and every address reported as removed carries a garbage key; "
           "resync_eq_incremental_partial - for EVERY history of DB.Put at one epoch (any objects, split chains, EC parts, links, refused "
           "puts) the rebuild from the accepted objects in history order yields exactly the incremental metabase (all buckets and counters); "
           "resync_interleaving_partial - for ANY objects, if every container's own blobs keep their relative order and no put aborts, all "
           "views are equal (buckets of different containers commute).",
     note="Trusted: Lean kernel; Model/Resync.lean and Model/Meta.lean are hand-written, tied by correspondence only (full dump of Exists/Get/"
          "IsLocked for 36 addresses, listing, expired iteration, garbage, counters, container info, plus the raw index, garbage keys and "
          "buckets after every op); bbolt transactions assumed atomic. The blob storage is a fake common.Storage that implements only "
          "Iterate/ShardID (all the rebuild uses) and delivers marshalled objects in the chosen order; FSTree's own enumeration order is one of "
          "them. resyncBatchSize is hard-coded (1000) in the model and compared with the code's constant on every run (op 'resync batchsize'); "
          "batch boundaries are exercised with >1000 blobs (the same objects delivered repeatedly) and an aborting object in the second batch. "
          "Missing from the partial theorem: split objects (parent headers, first/split ids), EC parts, links, storage groups, targets shared "
          "by a tombstone and a lock, tombstone targets with expiration (X vs R by order), ids 0; for these only the differential run and the "
          "oracles apply, and there the property fails (known findings). The oracle's cause labels come from PutBatch's own warning log "
          "(address + error of every skipped object). Every rebuild line also carries frag=0/1: the hypothesis plainObjs of the partial "
          "theorem, computed by the model driver and independently by the harness from the blob definitions and compared; an oracle failure "
          "inside the fragment is labelled inside-proved-fragment and matches no known finding (about one rebuild in five of a quick run is "
          "inside the fragment). In this revision the shard no longer rebuilds on init: ResyncFromBlobstor is reached "
          "through neofs-lancet meta resync only. Side observation tied by the run: a refused tombstone/lock that embeds a parent header "
          "leaves that parent indexed (PutBatch does not roll the nested put back, DB.Put does).",
     rule="per seed: 70 object sets of the metabase engine's worlds (regular, split children v1/v2/EC with parent headers, links, tombstones, "
          "locks, expirations; tombstones/locks retargeted at members and their parents; sometimes a second container) x EVERY permutation of "
          "sets of <= 5 blobs (24 seeded permutations of larger sets; thorough: 2500 sets, 120 for larger ones) through the real ResyncFromBlobstor; 50 sets of the "
          "theorem's fragment x <= 24 permutations where every assertion must hold; 60 incremental put histories + rebuild; 60 PutBatch "
          "sequences on incrementally built states with refused objects (tombstones/locks embedding parent headers, garbage marks, epoch "
          "moves); 3 rebuilds from > 1000 blobs with an aborting object in the second batch; oracles: pairwise equal status vectors "
          "(Exists class + IsLocked of all 36 addresses) and equal result for every two orders of one multiset, every stored blob indexed or "
          "listed as garbage, every removed indexed address listed by GetGarbage, rebuild = incremental; non-trivial = a rebuild of >= 2 "
          "blobs or a batch of >= 2 objects; distinct by world + op",
     trusted=["Model/Resync.lean putChainNR / putBatch / flushAll are hand transcriptions of db.put inside PutBatch, PutBatch and resyncHandler; tied by the line-by-line correspondence run"],
     assumptions=["one epoch during a rebuild (CurrentEpoch is read per batch; the harness keeps it fixed)",
                  "blobs decode (undecodable blobs are ignored by the rebuild and by the model alike; the harness asserts its objects decode)"])
