ENGINES.append({"name": "fstree", "path": "harness/eng_fstree.go", "serves_properties": ["C10", "C12", "C13"],
                "kind_free_text": "history driver of the real FSTree (O_TMPFILE writer, portable writer, batches, concurrent puts, depths 0-4, "
                                  "compressed stored forms) with failure injection and crash points at the writers' system calls "
                                  "(verifhook, child process) against Model/FSTree.lean"})

prop("C10",
     theorems=["NeoFS.FSTree.refines_map", "NeoFS.FSTree.reads_follow_map", "NeoFS.FSTree.iterate_each_once",
               "NeoFS.FSTree.combined_scan_finds_member", "NeoFS.FSTree.delete_member_keeps_others",
               "NeoFS.FSTree.stream_tail_before_fix", "NeoFS.FSTree.scanRaw_recs", "NeoFS.FSTree.parsePrefix_record",
               "NeoFS.FSTree.fromBE_beN", "NeoFS.FSTree.holds_read", "NeoFS.FSTree.put_spec", "NeoFS.FSTree.putBatch_spec",
               "NeoFS.FSTree.rel_step"],
     engines=[dict(name="fstree", quick=1, thorough=1)],
     claim="Lean proves, for EVERY history of Put / PutBatch / Delete with valid payloads on the O_TMPFILE writer (byte-level model: "
           "inodes as byte strings, names, the writers as sequences of open/writev/linkat/close calls, combined files as "
           "0x7F 0x00 oid len32 data records), that the disk state abstracts to a map address -> stored bytes (refines_map, by "
           "induction over the history with a refinement relation) and that in any such state Get/GetBytes, GetStream/Head (for every "
           "header buffer length), Exists and Iterate return exactly what the map says: the stored bytes (decompressed by an abstract "
           "codec), not-found after deletion, every stored address listed exactly once (reads_follow_map, iterate_each_once). The key "
           "lemma is the round trip of the combined-file record encoding for all payloads, lengths and positions, whatever bytes "
           "follow the records (scanRaw_recs / combined_scan_finds_member); deleting one member keeps the others readable. "
           "A put on an existing address keeps the existing file (linkat EEXIST is success): the map semantics is first-write-wins "
           "until deletion, which equals 'the bytes last stored' because an address is the hash of its object. "
           "Tied to the real FSTree by a differential run with a full dump after every op.",
     note="Genuine defect found and repaired (fix ee82f06): GetStream/Head of a combined-file member whose stored length is exactly "
          "NonPayloadFieldsBufferLength (20480) returned the following members' records as extra payload; the model reproduces the old "
          "behaviour with tailFixed=false (stream_tail_before_fix). Proved for the O_TMPFILE writer; the portable (rename) writer, "
          "whose Put replaces the file, is modelled (genericWrite) and tied by the same correspondence run but has no refinement "
          "theorem. readHeader's buffer-window mechanics (refills, seeks) are modelled by their result (first matching member, cut at "
          "its length) and exercised around the 20480-byte boundary, not proved at window level. Tree depth only changes the path "
          "of a name: exercised (depths 0-4), not modelled. zstd is an abstract codec parameter. Payload assumption: a stored object "
          "does not start with the bytes 0x7F 0x00 (protobuf and zstd frames never do) and is shorter than 4 GiB; object ids are "
          "unique across containers (combined records are keyed by object id only).",
     rule="90 (quick) / 4000 (thorough) seeded histories of 20..48 ops over 8 addresses, each with a random configuration (writer "
          "linux/generic, depth 0..4, combined threshold 300 or around 20480, count limit 1/2/3/4/128, size limit 400..8MiB): put, "
          "PutBatch of 1..4, 2..4 concurrent puts, delete, Get/GetBytes/GetStream/Head/Exists, Iterate, file-layout dump (size and "
          "sharing of files), reopen; marshalled object sizes 140..600 on both sides of the threshold, every sixth history with "
          "objects of exactly 20480, +-1, +-38, 40960(+37) bytes in combined files; one third of the addresses also stored "
          "zstd-compressed; every tenth history stores different contents under one address (model comparison only). After EVERY "
          "op: result + full dump (address:length:hash of every object via Iterate). Oracle: a Go map of acknowledged contents. "
          "non-trivial = history > 4 ops; distinct by history",
     trusted=["Model/FSTree.lean is a hand transcription of fstree.go/head.go/fstree_write_*.go, tied by the correspondence run",
              "the kernel file system (O_TMPFILE, linkat, rename, unlink, readdir) behaves as the model's name/inode table"],
     assumptions=["stored bytes never start with 0x7F 0x00 and are shorter than 4 GiB",
                  "object ids are unique across containers",
                  "zstd decompress(compress x) = x (abstract codec)"])
