ENGINES.append({"name": "gc", "path": "harness/eng_gc.go", "serves_properties": ["C44"],
                "kind_free_text": "histories on a real shard inside a real engine with synchronous removeGarbage passes (remover batch 1..3) "
                                  "against Model/GC.lean (gcPass over the metabase model + blob set); quiescence oracle"})

prop("C44",
     theorems=["NeoFS.GC.deleteMetadata_shrinks", "NeoFS.GC.deleteMetadata_removes", "NeoFS.GC.deleteMetadata_progress",
               "NeoFS.GC.deleteAll_shrinks", "NeoFS.GC.dbDelete_bucket", "NeoFS.GC.deleteAll_progress", "NeoFS.GC.deleteAll_never_grows",
               "NeoFS.GC.stuck_is_fixpoint", "NeoFS.GC.C44_counterexample"],
     engines=[dict(name="gc", quick=1, thorough=1)],
     claim="PARTIAL. Lean proves about the model of removeGarbage (Model/GC.lean on the metabase model), for every bucket, id and id list: "
           "deleteMetadata / DB.Delete never add a record or a removal mark (sub-list property), deleting an id that is absent or stored "
           "physically removes its record and its mark, so a GC batch strictly decreases the bucket measure |records|+|marks| as soon as it "
           "contains one such indexed-or-marked id and never increases it - the measure bounds the number of productive passes. The property's "
           "full liveness claim is FALSE for the current code (theorem C44_counterexample, a decide-checked reachable history; replayed on the "
           "real shard from the corpus on every run): a removal mark on a virtual parent is never collected and, with a remover batch of 1, "
           "starves everything behind it - recorded as known finding C44-virtual-parent-mark (not repaired: the repair changes what DB.Delete "
           "removes). The executable model of a whole pass (expired phase with processedEpoch, tombstone bins, the engine's "
           "processExpiredObjects for unsplit objects, GetGarbage batching, deleteObjs, DeleteContainer, blob removal) is tied to the real "
           "shard+engine by a differential run dumping index, marks, removed containers and blob listing after every op; the liveness itself "
           "is evaluated as an oracle at quiescence of the real GC (epochs advanced, three passes without change).",
     note="Trusted: Lean kernel; Model/GC.lean + Model/Meta.lean (correspondence); bbolt; the GC loop is driven synchronously through verif "
          "exports (VerifRemoveGarbage, VerifHandleNewEpoch) - timers and event goroutines are not modelled. Not modelled: expired split "
          "parents (the engine collects children through link objects; generated expirations are on unsplit objects only), the write-cache. "
          "The termination argument for whole passes over all containers is not a theorem (only the per-bucket progress/monotonicity lemmas are).",
     rule="120 (quick) / 6000 (thorough) seeded histories in the metabase engine's worlds (regular, split children of v1/v2/EC parents, links, "
          "tombstones, locks, expirations on unsplit objects; marks of both kinds; container removals; monotone epochs) with GC passes "
          "interleaved, remover batch 1..3, then three epoch advances past every expiration with 14 passes each; after EVERY op: indexed ids "
          "(physical/virtual), marks, removed containers, buckets, blob listing; oracle at quiescence: no mark, no removed container, no "
          "expired unlocked object, no blob without index; non-trivial = history > 8 ops; distinct by history",
     assumptions=["epochs only advance", "a single shard (engine-wide lock check = the shard's own)"])
