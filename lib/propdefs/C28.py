prop("C28",
     theorems=["NeoFS.ACL.calc_denies_iff", "NeoFS.ACL.calc_default_allow", "NeoFS.ACL.checkEACL_denies_iff",
               "NeoFS.ACL.decide_eq_spec", "NeoFS.ACL.served_only_if_rules", "NeoFS.ACL.basic_unset_denies",
               "NeoFS.ACL.sticky_violation_denies", "NeoFS.ACL.invalid_bearer_rejects", "NeoFS.ACL.consulted_eq_applicable",
               "NeoFS.ACL.consulted_bearer_iff", "NeoFS.ACL.bearer_table_ignored_when_not_allowed",
               "NeoFS.ACL.system_role_ignores_eacl", "NeoFS.ACL.final_ignores_eacl", "NeoFS.ACL.inner_ring_rule",
               "NeoFS.ACL.container_node_rule", "NeoFS.ACL.tombstone_replication_is_put"],
     engines=[dict(name="acl", quick=1, thorough=1)],
     claim="Lean theorems for ALL requests, basic ACL words, eACL tables (any number of records, targets, filters), header sets and bearer "
           "tokens over the model of the handlers' decision sequence (bearer token check -> request classification -> CheckBasicACL -> "
           "StickyBitCheck -> CheckEACL): (1) first-match theorem, by induction over the record list: CalculateAction ends in DENY/error "
           "exactly when the FIRST record that applies to the operation and requester and whose filters do not miss forbids "
           "(declarative TableDenies with an existential split of the table); (2) decide_eq_spec: a request is served (at once or pending "
           "the re-check with the object header) IFF the basic ACL bit of the requester's role allows the operation, the sticky rule "
           "holds for puts, the applicable table (bearer table iff the token is valid for this request and bearer rules are allowed for "
           "the operation, stored table otherwise) does not deny, AND an attached bearer token is valid - the code REJECTS a request "
           "carrying an invalid/mismatching bearer token instead of falling back to the stored table, which is stricter than the "
           "property's sentence and stated as such; the property's 'served only if' form is the corollary served_only_if_rules; "
           "(3) corollaries: unset basic bit denies whatever eACL/bearer say, sticky violation denies, bearer table is consulted only "
           "when allowed (and has no influence otherwise), inner ring = exactly GET/HEAD/SEARCH/HASH, container nodes = replication ops "
           "or the container bit, never sticky, tombstone replication with TTL 1 is judged as PUT, system roles and FINAL containers "
           "never reach the eACL. Tied to the code by running the real acl/v2.Service (VerifyBearerTokenMessage, *RequestToInfo incl. "
           "classification and verifyBearerTokenAgainstRequest) and the real acl.Checker (SDK acl.Basic, eacl.Validator, the node's "
           "header sources over a real storage engine) on generated requests, line by line against the model, plus a reference decision "
           "written from the property text as oracle. One genuine defect found and fixed (re-check with the binary header lost X-headers).",
     note="Proved: the composition above over Model/ACL.lean. Only exercised (correspondence, not proof): the SDK's acl.Basic bit layout "
          "(all 32 single-bit words and their complements x 7 ops x 4 roles on every run), eacl.Validator and bearer.Token accessors, "
          "the header derivation of eacl/v2/headers.go (modelled for the header keys the generated tables mention: $cid $oid $owner "
          "$epoch $size $type, user attributes, X-headers; per request kind and message: request, binary header, response). The call "
          "sequence of the server.go handlers is transcribed in the engine (the three checker calls and the error mapping), the handlers "
          "themselves are not run here (C29's subject). Not modelled: V2-split PUT parent/first-object header lookup other than its "
          "failure, N3 (contract) request signers, NNS. Signatures are an ideal predicate in the model; the run uses real ECDSA keys, "
          "valid and tampered. Code facts recorded, not judged: RANGE/DELETE/HASH see only the address headers and SEARCH none, so "
          "object-attribute filters never match there; a PUT of a split object on a node outside the container is relayed unchecked.",
     rule="per run: 1792 layout lines (each single bit and its complement x 7 ops x owner/inner ring/container node/others) + 9000 (quick) / "
          "200000 (thorough) seeded requests: ops get/head/put/tombstone-put/delete/search/range/hash, phases request / binary-header "
          "re-check / response re-check, basic word = specification constants, random 32-bit, or nearly open words with 2 bits knocked out "
          "(+FINAL/STICKY), sender/owner/inner-ring/container-node sets over 5 real keys (lookup errors incl.), stored table "
          "none/error/0-3 records (allow, deny, unspecified, unknown action; role, key, account, system and junk targets; filters over "
          "X-headers/object/unknown sources with all 7 matchers + unknown, values chosen to hit half of the time, non-numeric and 23-digit "
          "numbers), bearer token in 40% (valid, or one of: expired, nbf/iat ahead, tampered signature, issuer != signer, not the owner, "
          "other container, other user, no issuer), object stored locally or not; non-trivial = served request on an extendable container "
          "with a non-empty stored table or a bearer token; distinct by line",
     trusted=["SDK packages container/acl, eacl, bearer (outside the repository): behaviour observed through the run, not proved",
              "reference decision aclRef in harness/eng_acl.go (written from the property text)"],
     assumptions=["signature verification is an ideal predicate (valid / tampered)",
                  "the account derived from the sender key equals the request author (true for ECDSA request signers; N3 signers not generated)"])
ENGINES.append({"name": "acl", "path": "harness/eng_acl.go", "serves_properties": ["C28", "C30"],
                "kind_free_text": "runs the real object ACL service (acl/v2: classification, bearer/session token verification) and checker "
                                  "(acl: basic, sticky, eACL with the SDK validator over the node's header sources) on generated requests "
                                  "and tokens against Model/ACL.lean, with a reference decision as oracle"})
