prop("C30",
     theorems=["NeoFS.ACL.v1_ok_iff", "NeoFS.ACL.v2_ok_iff", "NeoFS.ACL.bearer_ok_iff", "NeoFS.ACL.bearer_effective_only_if_valid",
               "NeoFS.ACL.bearer_invalid_rejects", "NeoFS.ACL.bearer_ignored_when_not_allowed", "NeoFS.ACL.session_rejected_unless_ok",
               "NeoFS.ACL.v1_effective_only_if_valid", "NeoFS.ACL.v2_effective_only_if_valid", "NeoFS.ACL.v1_lifetime_boundaries",
               "NeoFS.ACL.bearer_lifetime_boundaries", "NeoFS.ACL.signed_field_change_rejects", "NeoFS.ACL.v1_tampered_rejected",
               "NeoFS.ACL.bad_signature_rejects_v1", "NeoFS.ACL.bad_signature_rejects_v2", "NeoFS.ACL.bad_signature_rejects_bearer",
               "NeoFS.ACL.cache_transparent", "NeoFS.ACL.old_cache_honours_expired_token", "NeoFS.ACL.verb_table",
               "NeoFS.ACL.delete_token_skips_object",
               "NeoFS.ACL.v2ChainAuth_iff", "NeoFS.ACL.v2ChainValid_iff", "NeoFS.ACL.chainLinked_iff", "NeoFS.ACL.v2chain_ok_iff",
               "NeoFS.ACL.v2chain_unsigned_level_rejects", "NeoFS.ACL.v2chain_effective_only_if_root_signed",
               "NeoFS.ACL.v2chain_too_deep_rejected", "NeoFS.ACL.v2chain_no_origin", "NeoFS.ACL.v2chain_lifetime_within_root"],
     engines=[dict(name="acl", quick=1, thorough=1)],
     claim="Lean theorems for ALL tokens, epochs/times and requests over the model of the code's token checks: (1) acceptance = "
           "conjunction: a V1 session token is accepted by VerifySessionV1TokenMessage IFF signed by its issuer's key, nbf<=cur, iat<=cur, "
           "cur<=exp, bound to the request's container, to its object (unless it is a delete token or the request names no object) and its "
           "verb admits the request verb by assertVerb's table (HEAD by head/get/delete/range, SEARCH by search/delete, else equal); a V2 "
           "token without origins IFF structurally valid, signed by its issuer, iat<=now, nbf<=now, now<=exp and some context for the "
           "request's container or the wildcard lists the verb; a DELEGATED V2 token (v2chain_ok_iff, by induction over the chain, any "
           "length) IFF it has at most MaxDelegationDepth origins, EVERY token of the chain down to the root is structurally valid and "
           "signed by its own issuer's key (AuthenticateTokenV2's walk has no depth bound), no origin is final, every token's issuer is "
           "named by its origin and its lifetime and contexts only narrow (Token.validate's walk incl. the merge walk of "
           "validateDelegatedContexts), and the outermost token is within its lifetime and admits the verb; the request is judged as the "
           "ORIGINAL issuer only if the root token is signed by that account's key (v2chain_effective_only_if_root_signed); a bearer token IFF signed by its issuer and within nbf/iat/exp; "
           "(2) effect: the request is judged under the token issuer's identity only if the token was accepted, a session token that is "
           "not accepted REJECTS the request (never ignored); an invalid or mismatching bearer token REJECTS the request; a valid bearer "
           "token whose rules the basic ACL does not allow for the operation is IGNORED (same decision as without it); its table is the "
           "consulted one only if valid for this request and allowed; (3) boundaries exp=cur accepted, exp+1=cur expired, nbf=cur accepted, "
           "nbf/iat=cur+1 refused; (4) under an ideal signature scheme (record with laws, instance given) a signature verifies for no other "
           "body, hence a token with ANY changed signed field is rejected; (5) the verdict cache is transparent for the REPAIRED code: for "
           "every cache whose entries are authentication verdicts (whatever requests, object validations, purges produced it) the cached "
           "path answers what the uncached check answers at every epoch; and a kernel-checked witness that the caching the code had before "
           "the repair honours an expired token. Tied by real SDK tokens signed with real keys (valid, single-field mutations after signing, "
           "flipped signature bit, single flipped byte anywhere in the encoding) through the real acl/v2.Service on one service per "
           "sequence with epoch/time changes WITHOUT cache purges, object validations seeding the shared cache, and purges. One genuine "
           "defect found and fixed (lifetime test lived inside the cached verdict).",
     note="Proved over Model/Token.lean + Model/ACL.lean. Not modelled / only partly exercised: NNS subjects of V2 tokens (subjects are accounts); N3 (contract witness) signatures; the subject / session "
          "key of a token is NOT checked against the request signer anywhere in the object request path (code fact, as the protocol has it: "
          "whoever holds the token may use it) - stated, not judged; V2 tokens carry no object binding; only the outermost V2 token's "
          "lifetime is tested per request. Signatures are an ideal predicate in the model. Error kinds are compared by class "
          "(ok / expired / access-denied / rejected), so rewording messages does not alarm. The repair moved the lifetime test behind "
          "the cache (as the V2 path already had it), which changes which error an expired AND badly signed token gets.",
     rule="a grid of delegated V2 tokens: every number of origins 0..MaxDelegationDepth+1 x every level x {flipped signature bit, signed "
          "by another account's key, issuer replaced after signing, signed field changed, issuer not named by the origin, lifetime / verbs "
          "wider than the origin's, final origin, wrong version, no subjects} plus a valid chain per depth (also corpus/acl/c30-chains.ops); "
          "160 (quick) / 6000 (thorough) sequences: 5 pooled tokens per sequence (V1, V2, delegated V2 with 0..5 origins, bearer; 1/2 carry one defect: flipped signature "
          "bit, signed by another key, one signed field changed after signing (exp nbf iat container objects verb issuer / contexts "
          "subjects), expired, nbf or iat ahead, unsorted verbs/contexts, wrong version, no subjects, wildcard duplicate), 8-21 ops each: "
          "verify a pooled token for a request (verb equal / random / HEAD / SEARCH, container equal or other, object in or out of the "
          "token's list or none), object validation of a pooled V1 token (seeds the shared cache), epoch += 0..2, time += 0..2, cache "
          "purge, single-byte flip of a canonical token of each kind; plus 1500 / 30000 whole-request decisions with bearer tokens "
          "(C28 stream); non-trivial = accepted token, distinct by line",
     trusted=["SDK packages session, session/v2, bearer, crypto (outside the repository): observed through the run, not proved",
              "reference validity in harness/eng_acl_tok.go computed from the generator's ground truth"],
     assumptions=["ideal signature scheme (IdealSig laws); ECDSA itself is not modelled",
                  "the request's meta header is the one the handlers read (no nested origin headers)"])
