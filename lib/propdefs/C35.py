prop("C35",
     theorems=["NeoFS.IRSkel.exec_exit_allowed", "NeoFS.IRSkel.chk_sound", "NeoFS.IRSkel.all_entries_guarded_eval", "NeoFS.IRSkel.all_entries_guarded",
               "NeoFS.IRSkel.no_effect_outside_alphabet", "NeoFS.IRSkel.server_isAlphabet_is_index_test",
               "NeoFS.IRSkel.entry_points_present",
               "NeoFS.IRAuth.keyPosition_neg_iff", "NeoFS.IRAuth.keyPosition_lt_length", "NeoFS.IRAuth.isAlphabet_iff_member",
               "NeoFS.IRAuth.vote_requires_alphabet", "NeoFS.IRAuth.vote_requires_membership", "NeoFS.IRAuth.vote_unfixed_counterexample",
               "NeoFS.IRAuth.epoch_requires_alphabet", "NeoFS.IRAuth.epoch_unfixed_counterexample",
               "NeoFS.IRAuth.tick_requires_alphabet", "NeoFS.IRAuth.emit_requires_alphabet",
               "NeoFS.IRIndexer.keyPosition_getElem", "NeoFS.IRIndexer.run_inv", "NeoFS.IRIndexer.failed_lookup_marks",
               "NeoFS.IRIndexer.reset_marks", "NeoFS.IRIndexer.success_records",
               "NeoFS.IRIndexer.served_from_last_successful_lookup", "NeoFS.IRIndexer.dirty_forces_lookup",
               "NeoFS.IRIndexer.guard_pass_requires_position", "NeoFS.IRIndexer.acts_only_on_last_successful_lookup",
               "NeoFS.IRIndexer.stamp_first_counterexample"],
     engines=[dict(name="ir", quick=1, thorough=1)],
     claim="Programs: harness/extract (go/packages + go/types over the working tree) regenerates on every run the control skeleton of EVERY "
           "handle*/Handle*/process*/Process* method of the eight inner ring processors plus Server.voteForFSChainValidator (startup vote), "
           "VoteForFSChainValidator and RequestNotary (42 entry points) into Gen/IRHandlers.lean: callees are inlined across pkg/innerring "
           "(interface methods resolved to all implementations, closures inlined), an 'effect' is any function of pkg/morph/client/... from "
           "which a transaction-sending primitive of morph client.Client (Invoke, TransferGas, notaryInvoke, sendNotaryRequest, "
           "NotarySignAndInvokeTX, runAlphabetNotaryScript) is statically reachable, conditions are interpreted only where they test "
           "IsAlphabet()/AlphabetIndex()<0. Lean proves the checker sound against a big-step semantics (for every skeleton: checker ok => NO run "
           "in the non-alphabet world performs an effect, whatever uninterpreted branches and loop counts do) and the kernel evaluates the "
           "checker to true on all 42 regenerated skeletons. Inputs: for all keys/lists/indexes, IsAlphabet <=> lists fetched and key in the "
           "committee (index -1 from an absent key or a failed lookup is never alphabet); the repaired vote guard, the new-epoch placement "
           "update, the epoch tick and the gas emission act only for 0 <= index < number of alphabet contracts / alphabet status. Two defects "
           "found by the checker and replayed on the real code through the engine were repaired (fix fe2a73f: vote sent with index -1; fix "
           "fe2a36a: non-alphabet node sent container placement notary scripts on NewEpoch); their pre-repair shapes are kept as decide-checked "
           "counterexamples. Dynamic tie: the real innerRingIndexer/Server getters and startup vote, the real netmap processor (NewEpoch "
           "notification handler, epoch tick), the real alphabet processor (emission) and the real container processor (notary requests) run "
           "over connection-less morph clients whose chain calls are intercepted and counted, compared line by line with Model/IRAuth.lean. "
           "The indexer's cache: Model/IRIndexer.lean follows innerRingIndexer.update/reset with the cache timeout, the zero-valued initial "
           "indexes, the half-updated indexes after a failed Committee lookup and a clock; for EVERY node life (process starts, key-list changes, "
           "failing/recovering lookups, waits, RPC reconnections, guard evaluations) whatever a guard evaluation is answered with comes from "
           "the most recent complete successful lookup (no lookup failed and no reconnection since; the key is at exactly that position of the "
           "committee that lookup read; the lookup is younger than the timeout or was made by this evaluation), and while a lookup has failed "
           "every evaluation goes to the chain; the variant that stamps the cache before the lookups is refuted by a decide-checked "
           "counterexample. Tie: the REAL indexer with a non-zero timeout behind the real Server getters, startup vote, emission and epoch "
           "tick in generated node lives (ops ix*), elapsed time injected by ageing the cache stamp (tagged export), compared line by line "
           "(values and the number of RPC lookups each call made) and checked by an oracle that keeps its own record of what the fetchers returned.",
     note="Proved: checker soundness; checker = true on every regenerated entry point; the index arithmetic. Trusted: the translator "
          "(irhandlers.go: statement abstraction, the callee classification, the list of six sending primitives, the entry point naming rule). "
          "Not followed by the translator: calls through function-typed fields (np.handleAlphabetSync, np.handleNotaryDeposit: their targets "
          "governance.HandleAlphabetSync is itself a checked entry point, the notary deposit is the node's own GAS) — listed in "
          "Gen.irDynamicCalls; in-repo interface methods without implementation among the loaded packages count as effects "
          "(Gen.irUnresolved). Assumed: IsAlphabet() is constant during one handler run (the indexer may refresh between calls). "
          "Exercised dynamically only for vote/index/epoch/tick/emission/container requests; the balance, neofs, governance, reputation and "
          "settlement processors are covered by the static theorem only. NOT claimed: 'acts on each event at most once' (only the preparator's "
          "already-handled cache is modelled, in C34); Server.SignNotary (operator command of the control service, outside the property's "
          "trigger list) co-signs without an alphabet test — emitted as Gen.irControlUnlisted, checker says false. Notary deposits "
          "(own account) are not counted as alphabet actions.",
     rule="exhaustive small tables: 100 (iridx,aidx,fetch-failure) index cases x 4 contract counts for the vote with random validator counts "
          "and prior votes; 16 new-epoch cases (alphabet x map changed x 0..3 containers) + 2 ticks; 189 emission cases (index -1..5 x "
          "contracts 0/1/4 x nodes 0/1/3 x emission 0/2/9); 150 (quick) / 2000 (thorough) container notary requests in alphabet and "
          "non-alphabet state; non-trivial = at least one chain call recorded or a co-signed request; distinct by op; "
          "70 (quick) / 1500 (thorough) node lives of 10-30 ops over the caching indexer (timeouts 0/2/5/10, key lists of 0-6 keys from 6, "
          "0-2 failing lookups of either kind, waits around the timeout, reconnections followed by failing lookups) + 9 hand-written lives; "
          "non-trivial there = an answer served from the cache or an evaluation whose lookup failed, distinct by (op, observation, state)",
     trusted=["harness/extract/irhandlers.go (skeleton translator and effect-set fixpoint) — regenerated facts are only as good as its abstraction",
              "verif-tagged interception of morph client calls records what would be sent to the chain"],
     assumptions=["alphabet status is constant during one run of a handler",
                  "the indexer decides freshness from its lastAccess stamp and the wall clock only (elapsed time is injected by moving the stamp back); "
                  "calls of one indexer are serialised by its lock (no concurrent schedule is explored)", "function-typed callbacks are entry points of their own"])
