ENGINES.append({"name": "elist", "path": "harness/eng_elist.go", "serves_properties": ["C06"],
                "kind_free_text": "cursor listing through real shards (Shard.ListWithCursor) and a real StorageEngine over 1-4 shards with "
                                  "overlapping copies against Model/Meta.lean dbList + Model/ListMerge.lean engList"})

prop("C06",
     theorems=["NeoFS.Meta.listScan_spec", "NeoFS.Meta.listPage_spec", "NeoFS.Meta.foldl_dbListStep_spec", "NeoFS.Meta.dbList_page",
               "NeoFS.Meta.dbList_zero", "NeoFS.Meta.pages_exact", "NeoFS.Meta.dbListable_sorted", "NeoFS.Meta.listable_eq_reference",
               "NeoFS.Meta.run_sorted", "NeoFS.Meta.shard_listing_exact", "NeoFS.EngList.mergeGo_spec", "NeoFS.EngList.full_stays_full",
               "NeoFS.EngList.inv_step", "NeoFS.EngList.engine_page", "NeoFS.EngList.engine_chain"],
     engines=[dict(name="elist", quick=1, thorough=1), dict(name="meta", quick=1, thorough=1)],
     spec_assertions=["listing-"],
     claim="Lean proves, shard level (DB/Shard.ListWithCursor): for every reachable metabase (buckets stay in container order and well-formed under "
           "every operation), EVERY starting cursor (also for containers/objects that do not exist) and EVERY sequence of page sizes >= 1, the pages "
           "are consecutive segments of one strictly ascending list - the physical objects of live containers that carry no removal mark, after the "
           "cursor (shown equal to the declarative reference set) - so each object appears exactly once and none is skipped; end-of-listing is "
           "answered iff nothing is left (and for count 0). Engine level (StorageEngine.ListWithCursor + mergeListResults): for ANY shards in ANY "
           "visiting order one page is strictly ascending, has <= count items, records for each item EXACTLY the shards that can list it, skips "
           "nothing (what a shard can list after the cursor is in the page or lies after a full page), reports the end iff no shard has anything "
           "left, and chained pages lie strictly after the returned cursor while everything not yet returned lies after it too. Proved by loop "
           "invariants over the bucket scan, the bucket loop and the merge loop. Tied to the code by a differential run over real shards and a real "
           "engine with overlapping copies, removal marks, removed containers, page sizes 0..6 and arbitrary cursors.",
     note="Trusted: Lean kernel; hand models Model/Meta.lean (listScan/listPage/dbListStep/dbList) and Model/ListMerge.lean (mergeGo/engList), tied by "
          "correspondence; bbolt ordered iteration. The map-iteration order of the engine's shards is covered by the theorem's 'any visiting order' "
          "and canonicalised (holders sorted) in the run. Engine-level termination (the end IS reached after finitely many pages) is proved at "
          "shard level and only exercised at engine level.",
     rule="70 (quick) / 4000 (thorough) seeded worlds: 1-4 real shards in a real engine, 1-4 containers, ids 1..10, puts of the same object on "
          "1..n shards, tombstones, removal marks (default and redundant-copy), container removals, then Shard.ListWithCursor and "
          "StorageEngine.ListWithCursor with count 0..6 and cursors at/between/before/after existing and non-existing containers and objects; every "
          "listing op also walks the whole page chain and compares it with one-shot listings (oracle); plus the metabase history engine comparing "
          "the listing with the reference rules after every op; non-trivial = page size smaller than the remaining list (page breaks), engine: with "
          "objects held by several shards; distinct by op+state")
