prop("C31",
     theorems=["NeoFS.SigChain.store_called_iff", "NeoFS.SigChain.forEachNode_found_iff", "NeoFS.SigChain.netCheck_none_iff",
               "NeoFS.SigChain.preCheck_none_iff", "NeoFS.SigChain.preCheck_some_failed", "NeoFS.SigChain.netCheck_some_sound",
               "NeoFS.SigChain.ok_iff", "NeoFS.SigChain.not_stored_not_ok", "NeoFS.SigChain.refusal_no_effect",
               "NeoFS.SigChain.refusal_sound", "NeoFS.SigChain.signed_only_after_store", "NeoFS.SigChain.wiring_matches_model"],
     engines=[dict(name="sigchain", quick=1, thorough=1)],
     claim="Lean proves for EVERY request shape and EVERY environment (any epoch, any node sets of the current and the previous epoch incl. "
           "unreadable network maps and policy-application errors, any own keys, any storage verdict): Server.Replicate calls "
           "VerifyAndStoreObjectLocally IF AND ONLY IF the request is well-formed (object, id, signature, non-empty key and signature, scheme "
           "0..2, header, decodable container id, decodable key), the signature verifies over the object id under the stated key, the LOCAL node "
           "is a container node at the CURRENT epoch, the SENDER key is a container node at the current or (epoch > 0) the previous epoch, and the "
           "object decodes (store_called_iff, through forEachNode_found_iff for the two-epoch iteration of placement.Service); OK status iff the "
           "storage was called and accepted (and a requested object signature could be made); no storage call implies a non-OK status; every "
           "refusal status other than busy / store failure / sign failure comes with no storage call and implies that the condition it names "
           "failed (refusal_sound). Tied to the REAL handler over the REAL placement.Service with table-driven container / network-map sources "
           "and a recording storage on really signed requests; status name, wire code, number of storage calls and signature presence compared. "
           "The node's own adapters between Server.Replicate and placement.Service / put.Service (cmd/neofs-node/object.go, package main) are "
           "regenerated as delegation facts (Gen/Wiring.lean) and pinned by wiring_matches_model.",
     note="Proved: the decision logic. Inputs of the model (not proved): ECDSA verification (ideal: the run makes real good signatures, flipped "
          "ones, good signatures of another key and of another id), key and object decoders of the SDK, the policy application of the SDK netmap "
          "package (the run uses REP 1 CBF 8 so that every node of an epoch's map is a container node; an empty map is the policy error), and "
          "the storage's full validation (VerifyAndStoreObjectLocally is a recording fake: 'the object must pass full validation' is the storage "
          "verdict here). As the code has it: the local node must be in the container at the CURRENT epoch only; the sender signature covers the "
          "object id bytes only; when a requested object signature cannot be made the status is an error although the object was stored. A "
          "successful object signature (needs a running meta service) is not exercised.",
     rule="table sender in {cur, prev, both, none} x local in {cur, prev, both, none} x epoch {0,1,5} x signature {valid, invalid, empty}; every "
          "request-side and environment-side condition failing alone x 3 schemes; 700 (quick) / 20000 (thorough) seeded combinations of node sets "
          "(incl. unreadable / policy error), own keys, epochs and 0-2 defects; non-trivial = request with a valid signature of a well-formed "
          "request (the decision then depends on the environment); distinct by op",
     trusted=["harness/extract/wiring.go: go/ast extraction of the delegation target of three cmd/neofs-node adapters (a non-delegating adapter is a generation problem)", "pkg/services/object/placement forEachContainerNode and Server.Replicate are hand-modelled (Model/SigChain.lean) and tied by correspondence"],
     assumptions=["signature scheme ideal", "the storage's VerifyAndStoreObjectLocally performs the full validation (parameter of the model)"])
