# C23 — reading a split or erasure-coded object returns exactly its original bytes
ENGINES.append({"name": "assemble", "path": "harness/eng_assemble.go", "serves_properties": ["C23"],
                "kind_free_text": "runs the real getsvc.Service (Get / GetRange) over a real local storage engine holding size-split chains "
                                  "(V1/V2, with/without link object), EC objects with unavailable parts and size-split objects with EC-coded children, "
                                  "against Model/Assemble.lean; oracle = bytes equal the payload slice"})

prop("C23",
     theorems=["NeoFS.Assemble.readAll_concat", "NeoFS.Assemble.whole_exact", "NeoFS.Assemble.rangeFromLink_exact",
               "NeoFS.Assemble.v2Link_exact", "NeoFS.Assemble.v2Last_exact", "NeoFS.Assemble.v1_exact",
               "NeoFS.Assemble.all_split_paths_agree", "NeoFS.Assemble.split_out_of_range_iff",
               "NeoFS.Assemble.guard_rejects", "NeoFS.Assemble.guard_passes", "NeoFS.Assemble.guardEC_iff",
               "NeoFS.Assemble.ecRangeBuffer_positive", "NeoFS.Assemble.walkBack_in_order",
               "NeoFS.Assemble.ecGet_exact", "NeoFS.Assemble.ecGet_decode_justified", "NeoFS.Assemble.recovered_part_is_original",
               "NeoFS.Assemble.ecRangeByParts_exact", "NeoFS.Assemble.ecRange_exact",
               "NeoFS.Assemble.splitEcGet_exact", "NeoFS.Assemble.splitEcRangeLink_exact"],
     engines=[dict(name="assemble", quick=1, thorough=1)],
     claim="Lean proves, for ALL payloads and ALL ways of cutting them into children (any child sizes, total 1..2^64-1), ALL request modes and 64-bit "
           "values: a GET of a size-split object is the children concatenated in order; a range read through the V2 link object "
           "(requiredChildrenIter: first child offset / last child right bound), by walking back from the last part (buildChainInReverse, V2 without "
           "link) and through both V1 layouts (initFromChild + reverse walk, with and without link object) returns exactly payload[off,off+ln) of the "
           "slice the request denotes and out-of-range exactly when that slice is unsatisfiable - PayloadRange.Resolve is the micro-translated "
           "Gen.resolve (C11's resolve_spec covers off+ln overflow), the four paths are proved equal, the walk over `previous` ids yields the children "
           "in order. The out-of-range guards of processV2Link / initFromChild / copyECObjectRangeByParts and calcECRangeBufferLen are "
           "micro-translated from the current source on every run: the guards pass every in-bounds and reject every wrapped or out-of-bounds 64-bit pair, "
           "the copy buffer is never empty. For EC objects (every rule d>=1, p>=0, every payload): GET returns the payload whenever at most p parts are "
           "unavailable; a range read (part window over ceil(n/d)-byte parts, first part offset, last part bound, recovery from the first unavailable part "
           "on) returns exactly the denoted slice for every in-bounds range and every set of unavailable parts that leaves d parts, out-of-range iff "
           "unsatisfiable; reconstructed parts are shown equal to the original ones from the Reed-Solomon law of C21 (Coder.Lawful). Size-split objects "
           "with EC-coded children: GET and range reads through the link object are proved exact by composing the child window with the per-child EC "
           "window. The model is tied to the code by running the REAL getsvc.Service (Get and GetRange) over a REAL storage engine holding the generated "
           "layouts; the oracle compares the returned bytes with the payload slice. Four genuine defects found by this check are repaired in the repo "
           "(fix: commits) and kept as corpus cases.",
     note="Proved versus exercised: the range read of a size-split object with EC-coded children WITHOUT a link object (copySplitECObjectRangeByInfo: "
          "model infoWalk) is modelled and tied by the correspondence run only, no theorem. Modelled, not verified: reading a stored child / EC part "
          "returns the slice Resolve denotes (readPhys; that is C11, and the run uses the real engine); Reed-Solomon arithmetic (Coder.Lawful, C21); "
          "the loops of requiredChildrenIter / buildChainInReverse are structural recursions over the child list in plain Nat (the theorems show every "
          "intermediate value stays inside the payload length < 2^64, so no 64-bit wrap can occur there; only Resolve, the guards and the buffer "
          "length are re-derived from source text, the rest of the model is a hand transcription tied by correspondence). Not covered: concurrency of "
          "streamChildrenPipelined (order of writes is taken from the code's index order; exercised with prefetchWindow=2), the streaming EC GET "
          "transport (streamECObject needs the gRPC server's transport; the run uses the restore path), remote nodes (every part is local or absent), "
          "several EC rules in one container, request forwarding, access tokens, chains with cyclic `previous` ids (the Go walk has no bound) or a "
          "link object whose sizes disagree with the children. The name-based location of the three micro-translated guard conditions (identifiers "
          "seekTo / pldLen+ln) breaks if those identifiers are renamed: harness/extract/targets.go must follow. Latent, unreachable after Resolve: the "
          "'full range' branch of copyECObjectRangeByParts computes lastPartTo = len % partLen, wrong when the payload ends before the last data part "
          "(e.g. 5 bytes, d=4); the model reproduces it, the theorems exclude it (ln >= 1).",
     rule="110 (quick) / 1500 (thorough) seeded layouts x 41 / 65 requests: payload 0..300 bytes (1 in 8: 0..7), max child size 1..64 with the code's "
          "max-size splitting (2 in 3) or arbitrary positive sizes, at most 6 children, stored whole / size-split V1 or V2 with or without link object / "
          "EC-coded with rule (1..4)/(0..2) / size-split with EC-coded children (link object stored whole); 3 in 4 EC layouts lose up to p parts per "
          "object, 1 in 12 objects loses p+1; requests = GET, whole-range forms, then seeded ranges through Get (modes 1-4) and GetRange: child and "
          "part boundaries +-1, random sub-ranges, out-of-bounds pairs, 1 in 25 values near 2^32/2^63/2^64; each request has a 15 s deadline (a hang "
          "is an oracle failure); corpus: the four repaired defects and 29 hand-written boundary cases; non-trivial = satisfiable proper sub-range "
          "of a non-whole layout; distinct by op line",
     trusted=["the real storage engine (metabase, fstree) under the get service is exercised, not modelled here (C01, C11)",
              "klauspost/reedsolomon is exercised through iec.Encode/Decode/DecodeRange, assumed lawful in the theorems (C21)"],
     assumptions=["stored chains are consistent: the link object lists the children with their true sizes, `previous` ids form the chain, the last part "
                  "and the link carry the parent header with the true payload size",
                  "Reed-Solomon law Coder.Lawful (any d parts determine every part)",
                  "payload and child sizes below 2^64"])
