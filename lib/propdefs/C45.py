prop("C45",
     theorems=["NeoFS.C45.maintenance_flag_wiring", "NeoFS.Handlers.checker_sound", "NeoFS.Handlers.checker_sound_view", "NeoFS.Handlers.not_mentions_no_check", "NeoFS.C45.client_handlers_guarded",
               "NeoFS.C45.effects_follow_maintenance_check", "NeoFS.C45.in_maintenance_checked", "NeoFS.C45.in_maintenance_no_effect",
               "NeoFS.C45.non_client_do_not_consult", "NeoFS.C45.replicate_never_checks_maintenance",
               "NeoFS.C45.replicate_served_in_maintenance"],
     engines=[dict(name="rpc", quick=1, thorough=1)],
     claim="What 'in maintenance' means in the running node is pinned by regenerated facts about cmd/neofs-node (package main): the flag read by the "
           "handlers' guard is written only by startMaintenance/stopMaintenance, called only from the operator's control request (maintenance_flag_wiring). "
           "Same regenerated handler terms and once-proved checker soundness as C29 (every method of protoobject.ObjectServiceServer plus "
           "same-shaped exported server methods, re-extracted from the working tree on every run). For every client-facing handler Lean proves "
           "over ALL runs: each storage / forwarding / data effect is preceded by a LocalNodeUnderMaintenance check whose latest answer was 'no' "
           "(effects_follow_maintenance_check), and if every maintenance check answers 'yes' no run contains such an effect whatever the other "
           "checks answer (in_maintenance_no_effect). The 'only' half: the terms of Replicate and of every method of both control services do not "
           "mention the maintenance check, so no run of them consults it (non_client_do_not_consult, replicate_never_checks_maintenance), and "
           "Replicate still reaches its store with every maintenance answer 'yes'. A handler added to the service is a client handler unless "
           "listed in C29.nonClient, so it is under the obligation automatically. Inputs part: the real Server over recording fakes, every "
           "handler with valid requests (5 variants) while the fake FSChain reports maintenance: no fake touched and status NodeUnderMaintenance "
           "for client operations; Replicate served and the maintenance flag never read.",
     note="Proved: the statements above about the generated terms. Trusted: translator harness/extract (skel.go, rules.go) as for C29. "
          "cmd/neofs-node (package main) is not linkable: that LocalNodeUnderMaintenance returns cfg.isMaintenance and that "
          "startMaintenance/stopMaintenance store it was READ (cmd/neofs-node/object.go, config.go, netmap.go), not checked. A PUT stream that is "
          "closed before its first message reaches Streamer.Close without any check (the Streamer refuses an uninitialised stream - assumption "
          "shared with C29). docs/maintenance.md is not compared.",
     rule="every handler found by reflection x scenario maint (plus all C29 scenarios for context) x 5 request variants; non-trivial = client "
          "operation refused with status NodeUnderMaintenance and zero recorded effects, or Replicate served without reading the flag; distinct by op line",
     trusted=["harness/extract/wiring.go (go/ast scan of cmd/neofs-node for writes/reads/aliases of isMaintenance and callers of its writers, by name)", "harness/extract/skel.go and rules.go (control-skeleton translator and tag table)",
              "recording fakes in harness/eng_rpc.go (the maintenance flag is a field of the fake FSChain)"],
     assumptions=["the flag read by LocalNodeUnderMaintenance is the node's maintenance state (wiring in package main, read only)",
                  "putsvc.Streamer refuses Close/SendChunk on a stream that was never initialised"])
