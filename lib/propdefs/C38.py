ENGINES.append({"name": "irn", "path": "harness/eng_irn.go", "serves_properties": ["C38"],
                "kind_free_text": "drives the real netmap processor of the inner ring (processAddNode, processUpdatePeer, processNewEpochTick, "
                                  "processNewEpoch) and the real CompositeValidator with the real state/structure/private-domains/locode validators "
                                  "over a real morph client pointed at the in-process fake JSON-RPC endpoint, against Model/IRNetmap.lean"})

prop("C38",
     theorems=["NeoFS.IRNetmap.approve_iff_all_validators", "NeoFS.IRNetmap.firstError_is_first_failing", "NeoFS.IRNetmap.calledCount_eq",
               "NeoFS.IRNetmap.admission_order_independent", "NeoFS.IRNetmap.approved_node_facts", "NeoFS.IRNetmap.updatePeer_iff_alphabet",
               "NeoFS.IRNetmap.tick_requests_next_epoch", "NeoFS.IRNetmap.every_request_is_next", "NeoFS.IRNetmap.non_alphabet_never_requests",
               "NeoFS.IRNetmap.state_after", "NeoFS.IRNetmap.applied_ticks_advance_by_one_each"],
     engines=[dict(name="irn", quick=1, thorough=1)],
     claim="Lean proves for EVERY validator list (any order, subset, repetition), candidate description and flag combination: processAddNode "
           "approves (NotarySignAndInvokeTX) iff the node is an alphabet node AND the notary main transaction's script halts AND the contract's node "
           "structure converts AND every configured validator accepts; the rejecting validator is the first failing one and later ones are not "
           "called; approval is invariant under permutation of the validator list; with the inner ring's own list an approved node is "
           "ONLINE/MAINTENANCE, has only well-formed endpoints, no repeated attribute, answered the availability probe, owns its verified "
           "domain and carries LOCODE attributes equal to the database record. Peer state updates are approved iff alphabet. For EVERY finite "
           "history of timer ticks, new-epoch notifications and alphabet membership changes: each tick makes an alphabet node request exactly "
           "(last notified epoch)+1 exactly once and a non-alphabet node nothing (tick_requests_next_epoch: outputs of pre ++ tick ++ post "
           "decomposed; every_request_is_next; non_alphabet_never_requests); when requests are applied at once n ticks advance the epoch by n.",
     note="The model follows the code of THIS tree: there is no cleanup table and processUpdatePeer checks nothing but the alphabet flag (the "
          "contract checks the witness) - the corresponding guidance items are therefore not claimed. Individual validators are short "
          "transcriptions with external look-ups as oracle bits (NNS record answer, availability probe, external validator, locode DB hit and "
          "per-field equality); state/structure/private-domains/locode run as REAL code in the tie (real locode DB), the availability and external "
          "validators are replaced by oracle stubs (they dial the network). IsValidScript is answered by the fake RPC endpoint. Epoch requests are "
          "observed on a client without notary support (test invocation of newEpoch with its argument); uint64 wrap of counter+1 is not modelled.",
     rule="700 (thorough 6000) raw node infos x validator lists (the inner ring's list, shuffled lists, subsets) through the real CompositeValidator "
          "with call recording; 500 (4000) AddNode notary events through the real processAddNode (alphabet / script / state / validators); 150 "
          "(1500) histories of 4..15 ticks, notifications (2/3 the next epoch, 1/3 arbitrary) and alphabet changes through the real "
          "processNewEpochTick/processNewEpoch with a recording epoch state and timer; non-trivial = accepted candidate, approved node, or an "
          "alphabet tick; distinct by op (tick: by op and epoch)",
     trusted=["Model/IRNetmap.lean is a hand transcription; tied by the line-by-line run", "harness/irfake.go answers for the FS chain"],
     assumptions=["the validator list passed to the processor is the one innerring.go composes (read, not extracted)"])
