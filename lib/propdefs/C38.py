ENGINES.append({"name": "irn", "path": "harness/eng_irn.go", "serves_properties": ["C38"],
                "kind_free_text": "drives the real netmap processor of the inner ring (processAddNode, processUpdatePeer, processNewEpochTick, "
                                  "processNewEpoch) and the real CompositeValidator with the real state/structure/private-domains/locode validators "
                                  "over a real morph client pointed at the in-process fake JSON-RPC endpoint, against Model/IRNetmap.lean"})

prop("C38",
     theorems=["NeoFS.IRNetmap.approve_iff_all_validators", "NeoFS.IRNetmap.firstError_is_first_failing", "NeoFS.IRNetmap.calledCount_eq",
               "NeoFS.IRNetmap.admission_order_independent", "NeoFS.IRNetmap.approved_node_facts", "NeoFS.IRNetmap.updatePeer_iff_alphabet",
               "NeoFS.IRNetmap.tick_requests_next_epoch", "NeoFS.IRNetmap.every_request_is_next", "NeoFS.IRNetmap.non_alphabet_never_requests",
               "NeoFS.IRNetmap.state_after", "NeoFS.IRNetmap.applied_ticks_advance_by_one_each",
               "NeoFS.IRNetmap.request_leaves_no_trace", "NeoFS.IRNetmap.state_ignores_requests",
               "NeoFS.IRNetmap.verdict_independent_of_earlier_candidates", "NeoFS.IRNetmap.vs_constant", "NeoFS.IRNetmap.history_approve_iff",
               "NeoFS.IRNetmap.repeated_candidate_same_verdict", "NeoFS.IRNetmap.history_epoch_refines",
               "NeoFS.IRNetmap.history_tick_requests_next_epoch", "NeoFS.IRNetmap.snapshot_after_newEpoch",
               "NeoFS.IRNetmap.admission_ignores_snapshot"],
     engines=[dict(name="irn", quick=1, thorough=1)],
     claim="Lean proves for EVERY validator list (any order, subset, repetition), candidate description and flag combination: processAddNode "
           "approves (NotarySignAndInvokeTX) iff the node is an alphabet node AND the notary main transaction's script halts AND the contract's node "
           "structure converts AND every configured validator accepts; the rejecting validator is the first failing one and later ones are not "
           "called; approval is invariant under permutation of the validator list; with the inner ring's own list an approved node is "
           "ONLINE/MAINTENANCE, has only well-formed endpoints, no repeated attribute, answered the availability probe, owns its verified "
           "domain and carries LOCODE attributes equal to the database record. Peer state updates are approved iff alphabet. For EVERY finite "
           "history of timer ticks, new-epoch notifications and alphabet membership changes: each tick makes an alphabet node request exactly "
           "(last notified epoch)+1 exactly once and a non-alphabet node nothing (tick_requests_next_epoch: outputs of pre ++ tick ++ post "
           "decomposed; every_request_is_next; non_alphabet_never_requests); when requests are applied at once n ticks advance the epoch by n. "
           "HISTORIES against ONE processor and ONE CompositeValidator (hrun: admissions of the same and of other keys with changing content, peer "
           "updates, ticks, notifications, alphabet changes, changes of the NNS records / of what a node serves / of the external policy / of the "
           "contract's network map): a request leaves no trace in the processor (request_leaves_no_trace, state_ignores_requests), so the verdict on a "
           "candidate - outcome, first rejecting validator, number of validators called - is the same after any two histories that differ only in the "
           "requests made earlier (verdict_independent_of_earlier_candidates); after EVERY history a candidate is approved iff alphabet now AND script "
           "halts AND structure converts AND every validator of the fixed list accepts the candidate in the world as it is NOW (history_approve_iff, "
           "vs_constant); the epoch part of a mixed history runs exactly as the epoch model on its epoch events (history_epoch_refines, "
           "history_tick_requests_next_epoch); the network map snapshot after a notification is the contract's map of that moment or is kept when the "
           "map cannot be read, placements are updated iff it changed on an alphabet node, and it plays no role in admission "
           "(snapshot_after_newEpoch, admission_ignores_snapshot).",
     note="The model follows the code of THIS tree: there is no cleanup table and processUpdatePeer checks nothing but the alphabet flag (the "
          "contract checks the witness) - the corresponding guidance items are therefore not claimed. Individual validators are short "
          "transcriptions with external look-ups as oracle bits (NNS record answer, availability probe, external validator, locode DB hit and "
          "per-field equality); state/structure/private-domains/locode run as REAL code in the tie (real locode DB), the availability and external "
          "validators are replaced by oracle stubs (they dial the network). IsValidScript is answered by the fake RPC endpoint. Epoch requests are "
          "observed on a client without notary support (test invocation of newEpoch with its argument); uint64 wrap of counter+1 is not modelled. "
          "History ops (hinit..hepoch, eng_irn_hist.go) run against ONE processor built as in innerring.go (netmap client as alphabet, container "
          "client, alphabet sync / notary deposit handlers) and ONE CompositeValidator for the whole sequence: state/structure/private-domains/locode "
          "are the real validators (private domains over a fake NNS holding the records set by hnns), availability is a fake that compares the WHOLE "
          "announced descriptor apart from its state with what the node serves (hserve), the external validator a fake policy over the announced "
          "attribute values (hext). The oracle of hadd evaluates FRESH instances of every configured validator on the candidate before the processor "
          "sees it. NewEpoch requests of that processor are notary invocations recognised by name through the morph client's interceptor; the "
          "contract's node list is answered by the fake RPC endpoint as an in-place expanded iterator; the container list is empty (placement "
          "update = the list was read).",
     rule="700 (thorough 6000) raw node infos x validator lists (the inner ring's list, shuffled lists, subsets) through the real CompositeValidator "
          "with call recording; 500 (4000) AddNode notary events through the real processAddNode (alphabet / script / state / validators); 150 "
          "(1500) histories of 4..15 ticks, notifications (2/3 the next epoch, 1/3 arbitrary) and alphabet changes through the real "
          "processNewEpochTick/processNewEpoch with a recording epoch state and timer; non-trivial = accepted candidate, approved node, or an "
          "alphabet tick; distinct by op (tick: by op and epoch); 200 (2000) histories of 10..30 events against ONE processor and ONE "
          "composite validator: 2..3 storage node keys re-announcing what they serve (2/3) or one changed field (state, endpoint, attribute set or "
          "value, verified domain, locode; 1/3, a third of those after a real restart), world changes in between (NNS record added/removed/NNS down, "
          "node stops answering / serves other content, external policy, contract's map), ticks, notifications, alphabet changes; non-trivial = "
          "approved candidate by (candidate, validator list)",
     trusted=["Model/IRNetmap.lean is a hand transcription; tied by the line-by-line run", "harness/irfake.go answers for the FS chain"],
     assumptions=["the validator list passed to the processor is the one innerring.go composes (read, not extracted)"])
