ENGINES.append({"name": "irc", "path": "harness/eng_irc.go", "serves_properties": ["C37"],
                "kind_free_text": "drives the real container processor of the inner ring (process*/check* functions, verifySignature, "
                                  "verifySessionV2, validateEACL) over a real morph client pointed at an in-process fake JSON-RPC endpoint "
                                  "(harness/irfake.go) on generated notary requests against Model/IRContainer.lean"})

prop("C37",
     theorems=["NeoFS.IRContainer.approve_implies_token_authorised", "NeoFS.IRContainer.approve_implies_authorised_partial",
               "NeoFS.IRContainer.verifySignature_token_authorised", "NeoFS.IRContainer.verifySignature_owner_authorised_partial",
               "NeoFS.IRContainer.C37_counterexample", "NeoFS.IRContainer.approve_requires_alphabet",
               "NeoFS.IRContainer.approve_put_checks", "NeoFS.IRContainer.approve_eacl_checks", "NeoFS.IRContainer.approve_target_checks",
               "NeoFS.IRContainer.verb_unasserted_before_fix", "NeoFS.IRContainer.v1_checks_each_needed",
               "NeoFS.IRContainer.direct_checks_each_needed"],
     engines=[dict(name="irc", quick=1, thorough=1)],
     claim="Lean proves, for EVERY signature scheme (Crypto record: ECDSA verify, key->user map, chain answer for N3 witnesses), configuration, "
           "epoch/time, alphabet flag and request of the five kinds (creation with optional eACL, removal, eACL, set/remove attribute): "
           "approve (= NotarySignAndInvokeTX reached) implies for every witness of the request TokenAuthorised: the owner's key (or the owner "
           "account's N3 witness) signed the payload; or a V1 token signed by the owner for exactly this verb, this container or any, alive at "
           "the current epoch, whose session key signed the payload; or a V2 delegation chain in which every token is signed by its issuer, the "
           "root is issued by the owner, every issuer is a subject of its origin, and EVERY token of the chain grants this verb for this "
           "container and is alive now (delegatedOk/findUnauthorizedVerb two-pointer walk proved to imply inheritance of grants). For requests "
           "without V2 tokens this is the full OwnerAuthorised (approve_implies_authorised_partial). The FULL statement (V2: payload signed by "
           "a subject or the issuer of the token) is FALSE for the code: C37_counterexample (kernel-checked witness, replayed on the real "
           "processor on every run as a known finding). Also proved: nothing is approved by a non-alphabet node; creation needs permitted system "
           "attributes, EC only when allowed and never with REP, valid policy, matching name/zone, eACL for the new container; eACL needs an "
           "extendable basic ACL and no system-role target; removal/attributes need a known container. Decide-checked witnesses show what "
           "dropping single checks admits (V2 verb before the repair, each V1 conjunct, the direct owner binding).",
     note="Repaired in the worktree: verifySessionV2 skipped the verb check for creation requests (no container id), so any V2 token of the owner "
          "(e.g. OBJECT GET only) authorised container creation; the model follows the repaired code. NOT repaired (known finding "
          "C37-v2-payload-signer): verifySessionV2 never looks at invocScript/verifScript/signedData, so a V2 token is a bearer credential. "
          "Assumed/abstract: cryptography (ideal scheme parameter), bytes->structure decoding, PlacementPolicy.Verify (oracle bit), the SDK's "
          "token accessors and sessionv2.Token.Validate (transcribed, tied by correspondence only), NNS subjects (not generated), time.Now for "
          "ValidUntil (bit). The tie observes the real process* functions end to end: real tokens/containers/eACL tables are built, signed "
          "with real ECDSA keys, marshalled, and the notary invocation is detected inside the real morph client.",
     rule="1400 (thorough 12000) seeded requests over 5 keys, 6 container numbers, epochs 3..7: per request a witness mode (direct / V1 / V2 chain "
          "of depth 1..6) valid by construction then 0..2 single-field corruptions (foreign signer, tampered payload or token, verb, container "
          "bound/unbound/other, lifetime edges, issuer, delegation subject/verbs/lifetime/final/depth, scheme N3/unsupported/missing) x "
          "kind-specific corruptions (attributes, EC/REP, policy, names, eACL roles/filters/comments, unknown container, bad id, expired "
          "request, non-alphabet); plus a hand-written boundary corpus; non-trivial = approved request; distinct by op line",
     trusted=["Model/IRContainer.lean is a hand transcription of the processor and of the SDK token checks; tied by the line-by-line run",
              "harness/irfake.go answers for the FS chain (container lookup, N3 script runs)"],
     assumptions=["ideal signatures: the theorems are stated through Crypto.verify, no unforgeability law is needed or assumed",
                  "wall clock for ValidUntil and chain time are inputs"])
