prop("C43",
     theorems=["NeoFS.ShardMode.behaviour_matches_mode", "NeoFS.ShardMode.consistent_step", "NeoFS.ShardMode.metaWF_step",
               "NeoFS.ShardMode.setMode_recovers", "NeoFS.ShardMode.failed_switch", "NeoFS.ShardMode.settled_inv",
               "NeoFS.ShardMode.behaviour_matches_mode_partial", "NeoFS.ShardMode.C43_counterexample",
               "NeoFS.ShardMode.rw_restores", "NeoFS.ShardMode.switch_keeps_objects", "NeoFS.ShardMode.step_cfg",
               "NeoFS.ShardMode.switch_order_facts", "NeoFS.ShardMode.modes_table", "NeoFS.ShardMode.reopen_consistent"],
     engines=[dict(name="modes", quick=1, thorough=1)],
     claim="Lean proves over the shard-mode model (state = reported mode + the modes metabase, blobstor and write-cache are actually in + "
           "stored data; SetMode = the components switched one after another in the order of Shard.setMode, stopping at the first "
           "failure without roll-back; failures injected at the metabase entry, at its bolt reopening, at the blobstor, at the "
           "write-cache): (1) behaviour_matches_mode - when reported and actual modes agree, EVERY request of the mode table (Put, "
           "Restore, Delete, MarkGarbage, InhumeContainer, DeleteContainer, ReviveObject, FlushWriteCache, List/Select/ListContainers/"
           "ContainerInfo/IsLocked, Get/Head/Exists) is rejected for a mode reason exactly when the REPORTED mode says so; (2) "
           "consistent_step/step_cfg - only a switch changes any mode, every other operation incl. background jobs keeps the agreement; "
           "(3) setMode_recovers - from ANY reachable state, after any number of failed switches and with a failure injected anywhere "
           "the switch does not reach, a switch that SUCCEEDS re-establishes the agreement (the 'mode changes are idempotent' of "
           "docs/shard-modes.md); metaWF_step/failed_switch - a failed switch keeps the reported mode and a coherent metabase; (4) "
           "settled_inv + behaviour_matches_mode_partial - along EVERY history from a fresh shard with arbitrary injected failures, at "
           "every point where no switch has failed since the last successful one, outcomes equal the table of the reported mode; (5) "
           "rw_restores + switch_keeps_objects - a successful return to read-write accepts every request, and no switch, failed or not, "
           "loses a stored object or touches metabase content. The FULL statement (also inside the window after a failed switch) is "
           "FALSE for the code: C43_counterexample (reported read-write, Put refused by the already read-only blobstor) - known finding "
           "C43-partial-switch, the window docs/shard-modes.md describes. (3) was false for the code as found: three genuine defects "
           "were repaired (metabase kept ReadOnly/old mode with a closed database after a failed reopening so that the retry was skipped "
           "and every request failed with 'database not open'; the blobstor switch was skipped by comparing with the REPORTED mode so "
           "that 'back to read-write' left it read-only; a shard started with a configured mode kept all components writable and its "
           "write-cache flushing). Tied to the real shard by a differential history run with verifhook fault points in "
           "metabase.SetMode/openBolt, Shard.setModeStorage and writecache.SetMode; the component modes are part of every observation.",
     note="Trusted: Lean kernel; hand model Model/ShardMode.lean (correspondence); harness/extract/modes.go (mode constants, predicates, "
          "guards, shape of Shard.setMode: base order + reversal condition - switch_order_facts). Injected failures are whole-component "
          "failures at entry plus the bolt reopening inside the metabase; a failing blobstor Close/Open/Init or write-cache store reopening "
          "half-way is not modelled (FSTree.Open cannot fail; Close failure leaves the shard's blobStorStale flag set so that the next "
          "switch retries - read, not exercised). The close/open cycle without Init (op `reopen`, engine BlockExecution/ResumeExecution; C14's "
          "extension of the shared model) opens every component for writing without re-applying the mode: outside read-write it "
          "separates reported and actual modes by construction; consistent_step, metaWF_step, settled_inv and "
          "behaviour_matches_mode_partial are stated for histories WITHOUT it (hypothesis isReopen = false), reopen_consistent shows "
          "the cycle keeps the agreement in read-write mode, setMode_recovers (any MetaWF state) still applies after it in modes with "
          "metabase; the C43 generator does not emit it (`settle`, the real scheduler tick, it does). Shard.Reload and handleMetabaseFailure (automatic switch on metabase errors at "
          "Open/Init) call the same setMode and are not driven. Known findings: C43-partial-switch, C43-partial-switch-flush "
          "(known_findings.d/C43.json).",
     rule=PROPS["C14"]["rule"],  # same engine and generator family (lib/propdefs/C14.py)
     trusted=["harness/extract/modes.go", "fault points are add-only verifhook lines in production code (stubs without the tag)"],
     assumptions=["SetMode holds the shard's write lock: no request runs between two component steps",
                  "a component that reports success has switched (bbolt.Open / FSTree.Open honour the read-only flag)"])
