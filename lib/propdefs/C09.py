prop("C09",
     theorems=["NeoFS.ShardSteps.no_resurrection_partial", "NeoFS.ShardSteps.no_resurrection_trace",
               "NeoFS.ShardSteps.gone_step", "NeoFS.ShardSteps.gone_hist", "NeoFS.ShardSteps.reported_gone",
               "NeoFS.ShardSteps.gone_unreadable", "NeoFS.ShardSteps.resync_without_blob_keeps_gone",
               "NeoFS.ShardSteps.C09_counterexample", "NeoFS.ShardSteps.orphan_after_crash_resurrected",
               "NeoFS.ShardSteps.flush_race_orphan_resurrected", "NeoFS.ShardSteps.cached_tombstone_lost_by_resync"],
     lean_modules=["NeoFS.Props.C09"],
     engines=[dict(name="shardst", quick=1, thorough=1)],
     claim="PARTIAL (the full statement is false for the code as it is; known finding). Proved in Lean for ALL histories and ALL crash points: "
           "once an object is reported removed (tombstoned, marked as garbage/dropped with the default mark, or deleted), every continuation made "
           "of puts of OTHER objects and tombstones, deletions, garbage marks, GC passes incl. tombstone expiry and collection, single/whole "
           "write-cache flushes, the flush-versus-delete schedule, epoch advances and restarts, each possibly cut by a crash after any atomic step, "
           "never reads it back (no_resurrection_partial; no_resurrection_trace states it per atomic step for arbitrary interleavings: only the "
           "metabase put of the object itself and the refill of a resync can bring it back). A resync is proved harmless when the main storage "
           "holds no bytes of the removed object (resync_without_blob_keeps_gone). C09_full (resyncs allowed) is refuted by C09_counterexample "
           "(dropped object + resync before collection) and three further kernel-evaluated witnesses (orphan blob left by a crash between the "
           "metabase and the blob step of deleteObjs + tombstone expiry; orphan blob re-created by a flusher racing the deletion; tombstone still "
           "in the write-cache), ALL replayed on the real shard on every run: real process crash inside deleteObjs, real flusher stopped at "
           "wc.flush.afterRead while Shard.Delete runs, real ResyncFromBlobstor as neofs-lancet does it. One defect was repaired instead "
           "(fix 80f34d3: Get served an unindexed write-cache copy).",
     note="Model and tie as for C15 (Model/ShardSteps.lean, engine shardst: state and answers of the real shard diffed with the model after "
          "every op, crashes are real process exits inside named points). 'Reported removed' in the oracle = Exists answers already-removed or "
          "marked-as-garbage for an object that was stored, or it was deleted; it ends with the next Put op of that object (completed or cut). "
          "Redundant-copy marks do not count as removal (the object stays readable by design until collected). Not modelled: locks, split/EC "
          "children, container removal, expiration of regular objects, engine-level multi-shard reads (C20). Reads through skipMeta "
          "(Shard.GetBytes, used by the engine after its own metabase check) bypass the metabase by design and are not covered. Interleavings "
          "other than the one flush-versus-delete schedule are covered by no_resurrection_trace at step level, not executed on the real code.",
     rule="quick: 20 seeded histories of 6..13 ops without resync (every assertion must hold) + 6 with resyncs mixed in (every failure must "
          "shrink to a history containing a resync = the known finding), 0..2 ops of each cut at a seeded step boundary, flush-versus-delete "
          "schedules included; corpus: the four refuting witnesses, the repaired history, one history per op kind cut at every boundary; "
          "thorough: 1500 + 500 x budget. After EVERY op the state dump is diffed with the model and the shadow set of removed objects is "
          "checked against Get; non-trivial = a history with a crash or more than 4 ops; distinct by history",
     trusted=["bbolt, FSTree and the kernel file system under a process crash are exercised, not modelled here (C10-C13)",
              "verifhook points are placed by hand between the component steps; their names and order are part of the correspondence"],
     assumptions=["object ids are content hashes", "epochs do not decrease",
                  "no resync runs while bytes of a removed object are still in the main storage (violated by the known finding's witnesses)"])
