ENG_RULE = ("150 (quick) / 6000 (thorough) seeded histories of 9..33 ops over a REAL engine with 1..4 real shards (metabase + FSTree behind a "
            "blob read/write fault wrapper), error threshold 0/2/3, 8 object ids with one fixed header each (4 regular objects with/without "
            "expiration, 2 tombstones, 2 locks with random targets): put / get / head / delete (garbage mark) / drop / is-locked / set-mode "
            "(5 modes, with/without counter reset) / fail(shard, read, write) / epoch / GC pass / evacuate; every op carries its own shard "
            "visiting orders (sorted and unsorted) applied through the verif order hook; after EVERY op the result and, per shard, mode, "
            "error counter, Exists code, blob presence and IsLocked of all 8 ids are compared with the model; non-trivial = history > 6 ops; "
            "distinct by history")

prop("C19",
     lean_modules=["NeoFS.Props.C19", "NeoFS.Lemmas.EngineEvac"],
     theorems=["NeoFS.Engine.evacuate_preserves_partial", "NeoFS.Engine.evacObjs_all_kept", "NeoFS.Engine.evacShards_all_kept",
               "NeoFS.Engine.evacTargets_keeps", "NeoFS.Engine.putToShard_keeps_mono",
               "NeoFS.Engine.evacuate_sources_unchanged", "NeoFS.Engine.evacTargets_places", "NeoFS.Engine.putToShard_places",
               "NeoFS.Engine.putToShard_frame", "NeoFS.Engine.evacTargets_frame", "NeoFS.Engine.evacObjs_frame",
               "NeoFS.Engine.evacShards_frame", "NeoFS.Engine.metaPut_ok", "NeoFS.Engine.C19_counterexample"],
     engines=[dict(name="eng", quick=1, thorough=1)],
     claim="PARTIAL. Lean proves for ALL engines, source sets, visiting orders, target failures/modes and both settings of ignoreErrors: "
           "(1) evacuation never changes a source shard, whatever its outcome (nothing removed, no status changed there) - by induction over "
           "source shards, listing and targets; (2) evacuate_preserves_partial, by induction over the source shards and over each listing "
           "with a monotonicity invariant: if Evacuate(ignoreErrors=false) succeeds, EVERY object listed by a source shard (indexed, no "
           "tombstone/garbage mark) is kept at the end by a shard of the order outside the source set - indexed in its metabase or, on a "
           "shard without metabase, in its blob store - incl. the 'already there' and 'expired there' answers, with targets failing, "
           "read-only, degraded or switched to degraded-read-only by the error threshold in the middle. NOT proved: availability / lock / "
           "tombstone STATUS on the targets (statuses are per shard; LOCK/TS objects are moved to ONE remaining shard). The full statement is FALSE for the current code (C19_counterexample, decide-checked witness replayed on the real engine): "
           "a garbage-marked object made available again by a later lock is served by the source but skipped by ListWithCursor, so a "
           "successful evacuation does not move it - recorded as a known finding. The final-state statements (sources unchanged, every "
           "object a source served is known to / served by a remaining shard, locks still reported by a remaining shard) are evaluated on "
           "the REAL engine's shards before/after every evacuation of the run.",
     note="Trusted: Lean kernel; Model/Engine.lean (correspondence). No fault handler (nil) is modelled or driven; one container; no split/EC "
          "parts (evacuation's parent-id ordering for EC parts is not covered); served/lock assertions are skipped when a remaining shard "
          "has no metabase (degraded targets take blobs only and report no status).",
     rule=ENG_RULE + "; evacuations: ~4% of ops plus corpus cases (lock + tombstone + failing and read-only targets), random source, both ignoreErrors values",
     assumptions=["the source listing fits one page (<= 100 objects; the run uses <= 8)"])
