ENGINES.append({"name": "policer", "path": "harness/eng_policer.go", "serves_properties": ["C22", "C26", "C27"],
                "kind_free_text": "runs the real Policer.processObject (processNodes, processECPart, nodeCache) and the real "
                                  "Replicator.HandleTask (over a real storage engine) in a scripted environment - fake network/placement, "
                                  "fake remote HEAD answers, fake remote replication endpoints - against Model/Policer.lean; op `task`: the real HandleTask with the context "
                                  "cancelled while a transfer is in flight; op `recreate`: the real pass over a local EC part with a scripted "
                                  "state of the sibling parts (checkECParts, recreateECParts, real replicator, really re-calculated parts)"})

prop("C26",
     theorems=["NeoFS.Policer.drop_implies_confirmed", "NeoFS.Policer.repPart_drop_safe", "NeoFS.Policer.ecPartByRule_drop_safe",
               "NeoFS.Policer.runVectors_confirmed", "NeoFS.Policer.processNodes_confirmed", "NeoFS.Policer.lock_link_never_dropped",
               "NeoFS.Policer.effVectors_broadcast", "NeoFS.Policer.confirmed_is_real", "NeoFS.Policer.handleTask_sound",
               "NeoFS.Policer.atLeastOneHolder_confirmed", "NeoFS.Policer.legacy_drops", "NeoFS.Policer.C26_legacy_counterexample"],
     engines=[dict(name="policer", quick=1, thorough=1)],
     claim="Lean proves, for EVERY environment (local node at any position of any list or absent, any maintenance flags, any HEAD answer "
           "has/not-found/maintenance/error per node, any replication outcome per node, readable or unreadable local object), every object "
           "type (REGULAR/TOMBSTONE/LOCK/LINK, EC part with any rule/part index) and every placement (any number of REP lists of any length "
           "with any copy numbers, any EC rules), about the model of one pass of the repaired code: if the pass removes the local copy with the "
           "redundant mark then (a) for every list the pass walks that contains the local node there are as many DISTINCT OTHER nodes of that "
           "list as the rule's copy number (for LOCK/LINK: as the list is long - impossible, so such copies are never dropped on a container "
           "node: lock_link_never_dropped) that are not flagged as maintenance and whose header was read in this very pass; (b) if no list contains "
           "the local node, some other node is confirmed (header read, or the replicator acknowledged a copy on a node that accepted it); (c) an EC "
           "part is dropped only if a node EARLIER than the local one in the part's node sequence is confirmed in that sense. Maintenance and error "
           "answers never are a confirmation (confirmed_is_real). Proof: invariants over the node loop of processNodes (witness list of distinct "
           "cached holders, monotone need/unchecked/heads), a node-cache invariant (every checked holder is confirmed) through replication, an "
           "invariant of the EC loop. The behaviour before the repair (d24cef5) is kept as `legacy = true` with a kernel-checked counterexample "
           "(C26_legacy_counterexample: REP 1, [not-found, maintenance, local], failed replication => dropped with no holder). The model is tied "
           "to the real processObject + real Replicator.HandleTask by a line-by-line differential run (delete marks, shard-copy drop, order of "
           "HEAD requests, every replication task with quantity/candidates/successes) and the property's own sentences are recounted from the "
           "fakes' logs on every pass.",
     note="Trusted: Lean kernel; hand model Model/Policer.lean, tied by correspondence only. Not modelled: cancellation of the context of a "
          "PASS (never cancelled in the `pass` ops; cancellation inside the replicator is modelled and run by op `task`, see C27), "
          "metrics/boost window, the Delete call failing. checkECParts/recreateECParts (sibling-part health check; never deletes) is modelled "
          "and run by op `recreate` (see C22); in the `pass` ops every sibling HEAD succeeds so it never acts. The shortage counter is modelled "
          "as the code's uint32 (dec32 wraps at zero; copy numbers are uint32 in the protocol). The guarantee is about what THIS pass saw: a header read earlier in the pass "
          "may be stale by the time of the delete (inherent to the protocol). Default-mark deletions (container not found, EC attributes that do "
          "not fit the policy) are policy clean-ups, not redundancy drops, and are outside the statement; the model reproduces them, including "
          "the missing `return` after deleting an EC-attributed object in a container without EC rules (REP lists are still processed). "
          "For TOMBSTONE objects in EC containers the theorem covers the EC lists with copy number = list length, as the code does.",
     rule="exhaustive: one list of 1..3 (thorough 4) distinct nodes x local node at every position or absent x every answer table {h,n,m,e}^L x "
          "copies 1..min(L,3) x REGULAR (+ a seeded third of TS/LOCK/LINK; all in thorough) with seeded maintenance flag/replication outcomes; "
          "seeded: 5000 (thorough 120000) placements of 1..3 REP lists (+0..2 EC lists) over 2..6 nodes with overlapping lists, weighted answer "
          "tables, flags, replication outcomes, unreadable local object, container-not-found / network error, out-of-netmap; 2500 (60000) EC "
          "parts incl. invalid rule/part indexes; malformed lines; plus the corpus replay of the repaired defect. non-trivial = at least one HEAD "
          "was issued and (a task was issued or something was deleted); distinct by op line",
     trusted=["neofs-sdk-go netmap.NodeInfo / apistatus error matching and client.DemuxReplicatedObject are exercised, not modelled",
              "the storage engine under the real replicator (GetBytes of the stored object) is exercised, not modelled here"],
     assumptions=["placements are well-formed: len(lists) = len(REP rules) + len(EC rules) (the Network.GetNodesForObject contract)",
                  "the context of a pass is not cancelled",
                  "a node answers one HEAD per pass consistently (the node cache asks a node at most once unless it answered with an error)"])
