ENGINES.append({"name": "shardst", "path": "harness/eng_shardst.go", "serves_properties": ["C15", "C09"],
                "kind_free_text": "history driver of one REAL shard (with and without write-cache, GC passes / epoch events / flushes driven "
                                  "synchronously through verif exports) against Model/ShardSteps.lean; an op carrying crash=K is executed by a "
                                  "child process of the same binary that exits inside the K-th verifhook point between the component steps "
                                  "(real process crash on the same directory), after which the parent reopens the shard and observes"})

prop("C15",
     theorems=["NeoFS.ShardSteps.meta_implies_data", "NeoFS.ShardSteps.safe_trace_crash_consistent",
               "NeoFS.ShardSteps.runHist_inv", "NeoFS.ShardSteps.crashOp_inv", "NeoFS.ShardSteps.opSteps_safe",
               "NeoFS.ShardSteps.inv_step", "NeoFS.ShardSteps.available_readable",
               "NeoFS.ShardSteps.delete_cache_first_breaks", "NeoFS.ShardSteps.put_meta_first_breaks",
               "NeoFS.ShardSteps.flush_delete_first_breaks", "NeoFS.ShardSteps.flush_delete_reput_schedule_breaks"],
     lean_modules=["NeoFS.Props.C15"],
     engines=[dict(name="shardst", quick=1, thorough=1)],
     claim="Lean proves, by induction over ALL histories of shard operations (Put of regular objects and tombstones incl. the roll-back of a "
           "refused put, Delete, MarkGarbage default/redundant, GC pass = expired-tombstone collection + garbage list, single-object and whole "
           "write-cache flush in any order, epoch advance, restart, metabase resync in any iteration order; shard with and without write-cache) "
           "in which EVERY operation may be cut by a crash after ANY number of its atomic persistent steps (one bolt transaction / one "
           "cache-file or blob write or removal): in the resulting state every address the metabase reports as available is returned by Get "
           "with the bytes stored under it (meta_implies_data). Invariant: indexed and not (default-garbage-marked or expired) implies bytes in "
           "blob or cache; every step that is safe where it runs keeps it (inv_step), every operation's step list is safe from every invariant "
           "state (opSteps_safe: data before metadata, metadata removed before data, blob copy written before the cache copy is dropped). "
           "safe_trace_crash_consistent states the same for ARBITRARY interleavings of atomic steps whose steps are each safe when they run. "
           "Kernel-evaluated counterexamples show the three swapped orders (cache copy deleted before the metabase record = deleteObjs before "
           "the repair; metabase put before the data; cache copy dropped before the blob copy) break the property. The model is tied to the "
           "REAL shard: same op lines, real process crashes inside named points between the component steps, after every op the full state "
           "(blob, cache, indexed, garbage key, Exists and Get answer per address) and the name of the point the crash hit are diffed against "
           "the model, and the oracle 'Exists = true => Get returns the stored bytes' is evaluated on the real shard after every op and every crash.",
     note="Trusted/assumed: bolt transaction atomicity and durability, FSTree single-object put/delete atomicity under a PROCESS crash (files "
          "survive, no torn object: that is C12), the summary of the metabase in Model/ShardSteps.lean (locks, split/EC children, expiration "
          "of regular objects and container removal are left out; what is modelled is validated by the run, Model/Meta.lean covers the "
          "metabase itself). Concurrency: GC passes, epoch events and flushes are driven synchronously, so crash points inside them are "
          "enumerated but true interleavings are not executed on the real code; safe_trace_crash_consistent covers interleavings only under "
          "its per-step safety hypothesis, and flush_delete_reput_schedule_breaks records a SCHEDULE (not a crash, outside C15's quantifier; "
          "C16's domain) in which the flusher's unconditional cache delete after Delete+Put of the same object breaks the invariant. "
          "A crashing op runs in a fresh process (restart, K steps, crash, restart), so the volatile GC bookkeeping is reset before it. "
          "Defect repaired (fix: 49b2337): deleteObjs removed the write-cache copy BEFORE the metabase record.",
     rule="quick: 24 seeded histories of 4..10 ops over 4 regular ids and 3 tombstone ids (fixed target and expiration per history), 2/3 of "
          "them with write-cache, 1..3 crashable ops of each history cut at a seeded step boundary (1..6); thorough: every op of 60 x budget "
          "short histories cut at EVERY step boundary 1..7; plus the hand-written corpus (one history per op kind cut at every boundary, the "
          "pre-repair failing histories). After EVERY op: blob / cache / indexed / garbage key / Exists / Get per address and the crash point "
          "name, diffed with the model; non-trivial = a history with a crash or more than 4 ops; distinct by history",
     trusted=["bbolt (atomic, durable transactions), FSTree and the kernel file system under a process crash are exercised, not modelled here (C10-C13)",
              "verifhook points are placed by hand between the component steps; their names and order are part of the correspondence"],
     assumptions=["object ids are content hashes: the same address always carries the same bytes (WFHist)",
                  "epochs do not decrease",
                  "process-crash model: committed bolt transactions and completed file operations survive, nothing else happens"])
