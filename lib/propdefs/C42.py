MIGRATE_RULE = ("20 (quick) / 300 (thorough) seeded object histories of 6..30 ops (the generator of engine `meta`: put of regular/"
                "tombstone/lock/link/split/EC objects, garbage marks default+redundant, delete, revive, container inhume/delete, "
                "epoch changes; 3 containers x 12 ids; half of the objects carry a homomorphic hash, some a user attribute, some an "
                "attribute whose NAME starts with the homomorphic-hash filter name) applied to a native current-format metabase "
                "through the real API; at the end of every history (and now and then in the middle) the native bolt file is "
                "rewritten into format 10 or 9 by the inverse of the documented format changes (VERSION.md) and opened by the real "
                "code: uninterrupted (`open`) and interrupted right after the k-th committed upgrade transaction for EVERY k up to "
                "one past the last (`crash`; the named point panics in-process between transactions, one k per third history kills a "
                "child process instead) and reopened; every fifth case reports a container as gone, half of the format-10 cases "
                "carry falsified counters; one history in ten carries 990..2100 filler homomorphic-hash entries and up to 1012 "
                "filler associate entries so that the 1000-entry batches, the bucket cursor and the in-bucket cursor are crossed. "
                "Both sides print per case: version, legacy keys, per bucket (key count, FNV-1a digest of all keys in key order, "
                "redundant marks, the 7 counters) of the old file, of the file found after the crash and of the final file, "
                "ObjectCounters, GetContainerInfo, and Exists/Get/Get-raw/IsLocked of all 36 addresses + listing + expired "
                "iteration + garbage. The version gate runs versions 0, 8, 12, 255, 11 and a missing version key. Non-trivial = a "
                "supported upgrade; distinct by (old content, k)")

ENGINES.append({"name": "migrate", "path": "harness/eng_migrate.go", "serves_properties": ["C42"],
                "kind_free_text": "history driver: native metabase through the real API, old-format bolt file by raw bbolt rewriting, "
                                  "real Open/Init (checkVersion, migrateFrom9Version, migrateFrom10Version) with interruption at every "
                                  "committed transaction, against Model/Meta.lean + Model/Migrate.lean; native database as the oracle"})

prop("C42",
     theorems=["NeoFS.Migrate.upgrade_tx_preserves", "NeoFS.Migrate.inv_after_upgrade_tx", "NeoFS.Migrate.migrate_complete",
               "NeoFS.Migrate.migrate_preserves_view", "NeoFS.Migrate.migrate_resumable",
               "NeoFS.Migrate.migrate_preserves_view_partial", "NeoFS.Migrate.migrate_resumable_partial",
               "NeoFS.Migrate.version_gate_refused", "NeoFS.Migrate.version_gate_current", "NeoFS.Migrate.migrate_refused",
               "NeoFS.Migrate.migrate_current", "NeoFS.Migrate.version_only_when_done", "NeoFS.Migrate.migrate_counters",
               "NeoFS.Migrate.inv_example", "NeoFS.Migrate.inv2_example"],
     engines=[dict(name="migrate", quick=1, thorough=1)],
     claim="This tree upgrades formats 9 and 10 to 11 (migrateFrom has exactly these keys; printed as a fact line by both sides on "
           "every run). Model/Migrate.lean models the upgrade as the sequence of its committed bolt transactions: "
           "migrateFrom9Version (one transaction), then dropHomomorphicIndexes and migrateAssociatedObjectValueToIDBytes run by "
           "updateContainersInterruptable (one transaction per batch of at most B entries, bucket cursor + in-bucket cursor held in "
           "memory only, buckets of containers reported gone skipped), then recount + version 11. A bucket is the set of its keys "
           "(structured: family, id, attribute, value; bbolt order = byte order of the encoded key, reproduced where the code "
           "iterates). A database is read through a View (per live container: which keys the bucket holds, which garbage marks are "
           "redundant): absOld reads every key as the current-format key it stands for (Base58 associate value -> raw id, "
           "homomorphic-hash index -> nothing), absNew reads the keys as they are. Lean proves for ALL databases satisfying the old "
           "format's invariant Inv2 (decidable: the attribute-to-id and id-to-attribute families mirror each other for the "
           "associate and homomorphic-hash attributes, no key twice, buckets ordered by container id, ids of 32 bytes; shown "
           "satisfiable, preserved by every transaction, checked by the harness on every old file), ALL container sources and ALL "
           "batch sizes B >= 1: (1) upgrade_tx_preserves - after ANY number of committed transactions, i.e. at every crash point "
           "and at the end, the file read as old format is what the original read as; (2) migrate_complete - a finished upgrade "
           "leaves no old-format key in any live container's bucket: neither cursor of the batch loop ever skips an entry, wherever "
           "the batch boundaries fall (phase-indexed invariant over the run; ordered scan + key-bytes injectivity for the in-bucket "
           "cursor); (3) migrate_preserves_view - absNew (migrate old) = absOld old; (4) migrate_resumable - crash after ANY k "
           "transactions (cursor lost), reopen: the view of the uninterrupted upgrade; (5) version gate: versions other than 9, 10, "
           "11 are refused with the file unchanged, 11 is opened unchanged, and the version key reads 11 only after the last "
           "transaction (version_only_when_done), so a reopening never skips a step; (6) migrate_counters - after an upgrade every "
           "bucket's counters equal the recount of its content (syncContainerCounters). Statuses at every epoch, listings and "
           "search results are functions of a bucket's key set; the engine additionally compares them, on every case, between the "
           "upgraded database, the model of the history (Model/Meta.lean) and the natively written database.",
     note="(3) and (4) carry the decidable hypothesis that the run ends within migrate's fuel ((migrateRun ..).ph = done; evaluated by "
          "the model driver on every case - an unfinished run would print `unfinished`); termination of the batch loop is NOT "
          "proved. The *_partial variants are the same statements relative to completeDB instead of Inv2's ordering/width parts. "
          "Exercised only: the old formats themselves - the old writers are gone from the tree, the old file is the native file "
          "rewritten by the inverse of VERSION.md's changes (the repository's own version tests build fixtures the same way); "
          "equality upgraded == native on raw keys, statuses, listings, 13 searches per container incl. by associate id, typed "
          "counters; garbage/payload counters against the model's recount. Model boundary: keys are tuples, so the byte slicing of "
          "the Go code (splitAttributeValueObjectID, reverse-key construction) is outside the proofs and tied by the per-bucket "
          "digests of the raw file at every crash point. Counters: 'stay what they were' is not claimed - format 11 recounts them "
          "on purpose (double counting repair); proved is counters = recount of the content, exercised is typed counters = native. "
          "Genuine defect found and repaired (fix commit): dropHomomorphicIndexes matched the prefix `2 $Object:homomorphicHash` "
          "WITHOUT the delimiter, so the attribute-to-id entries of any attribute whose name merely starts with that string were "
          "deleted by the upgrade and the object was no longer found by that attribute (replay corpus/migrate/homo_prefix.ops). "
          "Documented boundary (corpus/migrate/short_ids.ops, model = code): an associate id with 29+ leading zero bytes has a "
          "Base58 form of exactly 32 characters, which the rewrite takes for an already raw id and skips; impossible for SHA-256 "
          "ids in practice, the engine therefore uses ids with a non-zero first byte. The homomorphic-hash index is dropped by "
          "design (queries by it are rejected by the object service). A database without a version key is stamped 11 without "
          "any upgrade (modelled; a data-bearing file without the key would be left in whatever format it has).",
     rule=MIGRATE_RULE,
     trusted=["old-format files are reconstructed from VERSION.md, not written by the old code",
              "bbolt: a committed transaction is durable and an uncommitted one leaves the file unchanged (the interruption point is "
              "between transactions)",
              "structured keys: tuple <-> bytes correspondence of the key families (exercised by per-bucket digests)"],
     assumptions=["the container source answers the same for a container during the whole upgrade",
                  "object ids are 32-byte values whose Base58 form is not 32 characters long (true for hashes)",
                  "the upgrade run ends (decidable per case, evaluated by the driver; not proved in general)"])
