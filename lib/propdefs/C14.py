MODES_RULE = ("70 (quick) / 3000 (thorough) seeded histories of 20..70 ops on a real shard, alternately with and without write-cache, "
              "2 containers x 8 ids (ids 1..6 regular objects, some with an expiration epoch, 7 a tombstone and 8 a lock for one of them; "
              "one header per id): a writable prefix (put / delete / garbage mark default+redundant / container inhume+delete / revive / "
              "Restore / FlushWriteCache / flush-worker pass / `settle` = two ticks of the REAL write-cache flush scheduler (10 ms tick through "
              "verifhook.Duration, parked otherwise) / removeGarbage pass / new-epoch event with an unpaid container / reads), then "
              "1..3 periods opened by SetMode (C14: mostly ReadOnly / DegradedReadOnly / Disabled; C43: any of the five modes, a third "
              "of the switches with an injected component failure) each with 3..12 operations of the same mix incl. further switches; "
              "C14: in every second period `reopen` (Shard.Close + Shard.Open without Init = engine BlockExecution/ResumeExecution) + settle "
              "at a random point, every 10th history also in the writable prefix, every 12th history keeps the switches of known finding "
              "C14-reopen-switch-flush; "
              "then SetMode(ReadWrite) and put / GC / flush / list. After EVERY op both sides print outcome class, reported mode, "
              "metabase mode + handle state, blobstor read-only flag, write-cache mode + store flag, blobstor and write-cache addresses, "
              "Exists of all 16 addresses; after every op executed in a reported read-only mode the digest (path, size, SHA-256) of every "
              "file under the shard directory is compared with the one taken after the previous op; non-trivial = history > 5 ops; "
              "distinct by history")

ENGINES.append({"name": "modes", "path": "harness/eng_modes.go", "serves_properties": ["C14", "C43"],
                "kind_free_text": "history driver of a real shard (with/without write-cache) through all modes, background jobs as explicit "
                                  "steps and injected component SetMode failures, against Model/ShardMode.lean; on-disk digest oracle"})

prop("C14",
     theorems=["NeoFS.ShardMode.ro_step", "NeoFS.ShardMode.ro_rejects", "NeoFS.ShardMode.ro_rejects_flush",
               "NeoFS.ShardMode.ro_frame", "NeoFS.ShardMode.ro_frame_prefix", "NeoFS.ShardMode.setMode_starts_period",
               "NeoFS.ShardMode.restart_starts_period", "NeoFS.ShardMode.setMode_establishes", "NeoFS.ShardMode.setMode_ro",
               "NeoFS.ShardMode.ro_reads_meta", "NeoFS.ShardMode.ro_reads_object", "NeoFS.ShardMode.modes_table",
               "NeoFS.ShardMode.reopen_quiet", "NeoFS.ShardMode.setMode_quiet", "NeoFS.ShardMode.ro_quiet_step",
               "NeoFS.ShardMode.ro_period_step", "NeoFS.ShardMode.ro_period_frame", "NeoFS.ShardMode.C14_counterexample",
               "NeoFS.ShardMode.maintenance_cycle_facts"],
     engines=[dict(name="modes", quick=1, thorough=1)],
     claim="Lean proves over the shard-mode model, for EVERY state of a read-only period (reported mode read-only, blobstor opened "
           "read-only, write-cache in a read-only mode: what a successful fault-free switch establishes - setMode_starts_period) and "
           "EVERY sequence of operations issued during it - Put, Delete, MarkGarbage, InhumeContainer, DeleteContainer, ReviveObject, "
           "Restore, FlushWriteCache, all reads, and the background jobs as steps of the sequence (removeGarbage pass incl. expired "
           "collection, write-cache flush-worker pass, new-epoch handler with unpaid containers), and switches between read-only modes "
           "(ReadOnly <-> DegradedReadOnly <-> Disabled) - that metabase content, blobstor content and write-cache content are unchanged "
           "at every point (ro_frame, ro_frame_prefix; induction over the sequence on the one-step frame ro_step), that every modifying "
           "request answers the read-only error whatever the components' state (ro_rejects, ro_rejects_flush), and that reads follow "
           "the mode table: metabase reads answer iff the mode has a metabase, else the degraded error; Get/Head/Exists are never "
           "refused for a mode reason (ro_reads_*). The mode constants, the bit predicates Mode.ReadOnly/NoMetabase and every guard the "
           "model applies (which Shard method tests ReadOnly()/NoMetabase(), removeGarbage's ReadWrite-only test, the flush worker's "
           "readOnly() test) are REGENERATED from the source into Gen/ShardMode.lean on every run; a removed guard turns its fact false "
           "and the proofs stop checking. The model is tied to the real shard by a differential history run, and the property's own "
           "oracle compares a content digest of every file under the shard directory (blobstor tree, write-cache tree, bolt file) before "
           "and after every operation executed in a read-only mode. MAINTENANCE CYCLE: the model has the op `reopen` = Shard.Close + "
           "Shard.Open WITHOUT Init (what StorageEngine.BlockExecution / ResumeExecution do to every shard: regenerated facts "
           "engineBlock_closesShards, engineResume_opensShards, engineResume_initsShards = false) after which the shard keeps reporting its "
           "mode while blobstor, bolt handle and write-cache are opened for writing again, and the op `settle` = the REAL flush scheduler "
           "running for two ticks. ro_period_frame proves for EVERY sequence of a read-only period with close/open cycles at any point "
           "(all requests, reads, GC pass, flush-worker pass, scheduler ticks, epoch handler, Restore, switches between read-only modes) "
           "that stored data is unchanged, given the regenerated fact that cache.Open does not start the flush loop "
           "(wcOpen_startsFlushLoop = false, pinned: a change that resumes the loop in Open breaks the proof) and provided no switch "
           "to a mode without metabase follows a cycle before a switch to ReadOnly (legalPeriod); without the proviso the statement is "
           "FALSE for the code: C14_counterexample, known finding C14-reopen-switch-flush (replayed from corpus/modes/c14-reopen.ops on "
           "every run). reopen_quiet / setMode_quiet: the cycle itself moves nothing, and a switch to ReadOnly brings every component back.",
     note="Trusted: Lean kernel; hand model Model/ShardMode.lean (tied by correspondence; metabase content = Model/Meta.lean, blobstor and "
          "write-cache = address sets since an address always carries the same bytes); harness/extract/modes.go (AST pattern matcher for "
          "guards: an `if` whose condition calls .ReadOnly()/.NoMetabase() and whose body returns the mode error). Assumed, not proved: "
          "bbolt opened read-only never writes its file and FSTree with readOnly set refuses Put/Delete (both exercised by the digest "
          "oracle on every read-only op); background jobs are driven synchronously through verif exports (the write-cache scheduler is "
          "parked by a verifhook line, the GC ticker by a 1 h interval), so the schedule of background steps is a sequence of whole "
          "passes. Component failures during SetMode are C43's subject and excluded here (Op.staysRO). Configurations: a period may "
          "start by (re)starting the shard with a read-only CONFIGURED mode (restart_starts_period, op `restart`): for the code as found "
          "this was a genuine violation - the configured mode was only reported, every component stayed writable and the write-cache "
          "flush workers kept moving objects to the blobstor (replayed: put, put, restart m=1, flushtick) - repaired in Shard.Init. A "
          "second defect found on the way and repaired (not a C14 violation): Shard.Delete panicked for a container unknown to the "
          "metabase with write-cache on. Two more defects found through the maintenance cycle and repaired: Shard.Open left the record "
          "of how the blobstor is opened stale, so SetMode(READ_ONLY) after the cycle skipped the blobstor and left it writable for good "
          "(replayed: put, setmode m=1, reopen, setmode m=1 -> blobro=0; then setmode m=3 moved the cache into the blobstor); "
          "metabase.SetMode leaked the bolt handle Shard.Open leaves in a mode without metabase, its file lock made every later switch "
          "to a mode with metabase fail (replayed: setmode m=3, reopen, setmode m=1 -> timeout). The scheduler's liveness is read from "
          "hook points in unchanged code (start fault point, exit point); `settle` waits for two ticks, or 30 tick periods when no "
          "scheduler shows up.",
     rule=MODES_RULE,
     trusted=["bbolt read-only open and FSTree's readOnly flag are exercised (digest oracle), not modelled below the guard level",
              "harness/extract/modes.go guard matcher"],
     assumptions=["operations are atomic with respect to SetMode (the shard's RWMutex `m` is held by every operation)",
                  "background jobs are whole passes at op boundaries (they take the same mutex for reading)"])
