ENG_RULE = ("150 (quick) / 6000 (thorough) seeded histories of 9..33 ops over a REAL engine with 1..4 real shards (metabase + FSTree behind a "
            "blob read/write fault wrapper), error threshold 0/2/3, 8 object ids with one fixed header each (4 regular objects with/without "
            "expiration, 2 tombstones, 2 locks with random targets): put / get / head / delete (garbage mark) / drop / is-locked / set-mode "
            "(5 modes, with/without counter reset) / fail(shard, read, write) / epoch / GC pass / evacuate; every op carries its own shard "
            "visiting orders (sorted and unsorted) applied through the verif order hook; after EVERY op the result and, per shard, mode, "
            "error counter, Exists code, blob presence and IsLocked of all 8 ids are compared with the model; non-trivial = history > 6 ops; "
            "distinct by history")

ENGINES.append({"name": "eng", "path": "harness/eng_engine.go", "serves_properties": ["C20", "C19", "C08"],
                "kind_free_text": "history driver of the REAL StorageEngine over 1-4 real shards with per-op shard visiting orders (verif order hook), "
                                  "per-shard blob read/write fault injection, mode switches, epochs, synchronous GC passes and evacuation against Model/Engine.lean"})

prop("C20",
     lean_modules=["NeoFS.Props.C20", "NeoFS.Lemmas.EngineSplit"],
     theorems=["NeoFS.Engine.split_merge_order_independent", "NeoFS.Engine.getWith_split_spec", "NeoFS.Engine.pass1_split",
               "NeoFS.Engine.get_finds_held_object", "NeoFS.Engine.get_reports_removed", "NeoFS.Engine.get_no_resurrection_partial",
               "NeoFS.Engine.head_no_resurrection_partial", "NeoFS.Engine.pass1_stops", "NeoFS.Engine.pass1_no_obj",
               "NeoFS.Engine.getWith_stops", "NeoFS.Engine.getWith_no_obj", "NeoFS.Engine.Shard.get_cases",
               "NeoFS.Engine.C20_counterexample", "NeoFS.Engine.missed_tombstone_order_dependent",
               "NeoFS.Engine.old_second_pass_resurrects"],
     engines=[dict(name="eng", quick=1, thorough=1)],
     claim="Lean proves for ALL engines (any shards in any state), ALL shard visiting orders without repetition, ALL modes, ALL blob read "
           "failures, error counters and thresholds (shards may be switched to degraded-read-only mid-read): (1) if some shard holds the "
           "object (readable blob; metabase says available, or the shard is degraded) and no shard with a metabase reports it removed or "
           "expired, Get returns exactly that object - errors and degraded modes elsewhere never hide it; (2) if a shard has it tombstoned "
           "and none holds it, Get answers 'already removed' for every order; (3) if no shard with a metabase has it available and no "
           "degraded shard holds its blob, Get and Head never return it (no resurrection by other shards' modes/errors). The read "
           "algorithm is proved parametrically in the shards' answers (pass1_stops / pass1_no_obj), so (1)-(3) also cover split-info and "
           "EC answers as 'stopping' answers; (4) split-info merging is order-independent: when every shard either does not know the "
           "object or reports split information consistent with one link / last part, any two orders visiting the same shards give the "
           "same answer, early stop on complete information included (split_merge_order_independent). One genuine defect was REPAIRED (fix 3d1ec45: any degraded shard made the second pass read "
           "healthy shards' blobs ignoring their metabases => garbage-marked objects readable again; kept as decide-checked theorem "
           "old_second_pass_resurrects). The FULL statement is FALSE for the current code and recorded as two known findings with "
           "decide-checked witnesses: a shard holding a removed object that is itself switched to a degraded mode serves the blob "
           "(C20_counterexample), and a holder that was not writable when the tombstone was broadcast keeps serving the object, making the "
           "answer order-dependent (missed_tombstone_order_dependent). Model tied to the real engine by a differential history run.",
     note="Trusted: Lean kernel; hand model Model/Engine.lean: the per-shard transition table (regular objects, tombstones, locks, "
          "expiration, garbage marks, one container, no write-cache) is validated only by the correspondence run against real shards; "
          "split/EC parents are not in the shard table (their answers are covered by the parametric read algorithm but NOT exercised by "
          "the run; split info is modelled as (link, last part) only, first-part id and split id are abstracted away); HRW hashing is replaced by explicit orders; GetRange/GetBytes "
          "variants share StorageEngine.get and are not driven separately.",
     rule=ENG_RULE,
     trusted=["bbolt, FSTree and the kernel file system under the shards are exercised, not modelled here",
              "the verif order hook replaces hrw.Sort / map iteration order by the order given in the op line"],
     assumptions=["an address has one content (ids are content hashes): hypothesis hsame of get_finds_held_object",
                  "a visiting order contains no shard twice (sortedShards/unsortedShards are permutations of the shard map)"])
