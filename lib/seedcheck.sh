#!/bin/bash
# usage: lib/seedcheck.sh <srcdir> <name> <demo-dest-relative> <go-test-run-pattern> <pkg> <check>...
# Confirms a seeded change (patch.diff + demo) in a scratch worktree, then runs the given checks against it in /repo.
SRC=$1; NAME=$2; DEST=$3; PAT=$4; PKG=$5; shift 5
export GOFLAGS=-mod=mod GOPROXY=off
WT=/tmp/sv/$NAME
OUT=/verif/seeded/$NAME
mkdir -p $OUT
cp $SRC/patch.diff $OUT/patch.diff
for f in $SRC/demo*; do cp $f $OUT/; done
git -C /repo worktree add -q --detach $WT HEAD || exit 1
res() { echo "$1" | tee -a $OUT/confirm.log; }
: > $OUT/confirm.log
cp $SRC/$(basename $SRC/demo_test.go) $WT/$DEST 2>/dev/null || cp $SRC/demo_test.go $WT/$DEST
( cd $WT && go test $TAGS $PKG -run "$PAT" -count=1 >$OUT/demo_without.txt 2>&1 ); r0=$?
res "demo without patch: exit $r0 (expect 0)"
( cd $WT && git apply $OUT/patch.diff 2>$OUT/apply.txt ); ra=$?
res "patch applies to current /repo HEAD: exit $ra"
( cd $WT && go build ./... >$OUT/build.txt 2>&1 ); rb=$?
res "go build ./... with patch: exit $rb"
( cd $WT && go test $TAGS $PKG -run "$PAT" -count=1 >$OUT/demo_with.txt 2>&1 ); r1=$?
res "demo with patch: exit $r1 (expect non-zero)"
rm -f $WT/$DEST
( cd $WT && go test $PKG -count=1 2>&1 | grep -E "^(ok|FAIL|---)" >$OUT/pkgtests_with.txt ); 
res "existing tests of $PKG with patch: $(grep -c '^--- FAIL' $OUT/pkgtests_with.txt) failing tests: $(grep '^--- FAIL' $OUT/pkgtests_with.txt | tr '\n' ' ')"
git -C /repo worktree remove --force $WT
# run the checks against the change: in /repo itself with /verif, or (RR/RV set) in a private clean worktree of /repo
# HEAD with a private copy of /verif, so that other runs against /repo are not disturbed
RR=${RR:-/repo}; RV=${RV:-/verif}
[ -z "$(git -C $RR status --short)" ] || { res "$RR not clean"; exit 1; }
git -C $RR apply $OUT/patch.diff || { res "cannot apply to $RR"; exit 1; }
for c in "$@"; do
  if [ "$RR" = /repo ]; then o=$(cd $RV && ./check $c --tier quick 2>&1 | grep -E "^(VIOLATION|OK|KNOWN|  )" | cut -c1-400)
  else o=$(cd $RV && VERIF_REPO=$RR ./check $c --tier quick 2>&1 | grep -E "^(VIOLATION|OK|KNOWN|  )" | cut -c1-400); fi
  res "check $c: $( (echo "$o" | grep -E "^(VIOLATION|OK)" | head -2; echo "$o" | grep -E "^  " | head -2; echo "known-findings-printed=$(echo "$o" | grep -c "^KNOWN")") | tr '\n' '|')"
done
git -C $RR checkout -- .
git -C $RR status --short | head -3
