#!/bin/bash
# usage: lib/seedcheck.sh <srcdir> <name> <demo-dest-relative> <go-test-run-pattern> <pkg> <check>...
# Confirms a seeded change (patch.diff + demo) in a scratch worktree, then runs the given checks against it in /repo.
SRC=$1; NAME=$2; DEST=$3; PAT=$4; PKG=$5; shift 5
export GOFLAGS=-mod=mod GOPROXY=off
WT=/tmp/sv/$NAME
OUT=/verif/seeded/$NAME
mkdir -p $OUT
cp $SRC/patch.diff $OUT/patch.diff
for f in $SRC/demo*; do cp $f $OUT/; done
git -C /repo worktree add -q --detach $WT HEAD || exit 1
res() { echo "$1" | tee -a $OUT/confirm.log; }
: > $OUT/confirm.log
cp $SRC/$(basename $SRC/demo_test.go) $WT/$DEST 2>/dev/null || cp $SRC/demo_test.go $WT/$DEST
( cd $WT && go test $TAGS $PKG -run "$PAT" -count=1 >$OUT/demo_without.txt 2>&1 ); r0=$?
res "demo without patch: exit $r0 (expect 0)"
( cd $WT && git apply $OUT/patch.diff 2>$OUT/apply.txt ); ra=$?
res "patch applies to current /repo HEAD: exit $ra"
( cd $WT && go build ./... >$OUT/build.txt 2>&1 ); rb=$?
res "go build ./... with patch: exit $rb"
( cd $WT && go test $TAGS $PKG -run "$PAT" -count=1 >$OUT/demo_with.txt 2>&1 ); r1=$?
res "demo with patch: exit $r1 (expect non-zero)"
rm -f $WT/$DEST
( cd $WT && go test $PKG -count=1 2>&1 | grep -E "^(ok|FAIL|---)" >$OUT/pkgtests_with.txt ); 
res "existing tests of $PKG with patch: $(grep -c '^--- FAIL' $OUT/pkgtests_with.txt) failing tests: $(grep '^--- FAIL' $OUT/pkgtests_with.txt | tr '\n' ' ')"
git -C /repo worktree remove --force $WT
# run the checks against the change in /repo itself
cd /repo && git apply $OUT/patch.diff || { res "cannot apply to /repo"; exit 1; }
cd /verif
for c in "$@"; do
  o=$(./check $c --tier quick 2>&1 | grep -E "^(VIOLATION|OK|KNOWN|  )" | cut -c1-400)
  res "check $c: $(echo "$o" | head -3 | tr '\n' '|')"
done
git -C /repo checkout -- .
git -C /repo status --short | head -3
