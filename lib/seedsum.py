#!/usr/bin/env python3
"""Summarise seeded/*/confirm.log: per seeded change, verdict of every check that was run against it."""
import os, re, sys
base = '/verif/seeded'
for d in sorted(os.listdir(base)):
    p = os.path.join(base, d, 'confirm.log')
    if not os.path.exists(p):
        print(d, 'NO-CONFIRM'); continue
    res = []
    latest = {}
    for ln in open(p):
        m = re.match(r'(?:re)?check (C\d+): (.*)', ln)
        if m: latest[m.group(1)] = m.group(2)
    for cid, body in latest.items():
        m = re.match(r'(C\d+)', cid)
        if 'VIOLATION' in body:
            v = 'CAUGHT' + ('(no-input)' if 'no-failing-input-found' in body else '')
        elif re.search(r'\bOK property', body): v = 'missed'
        else: v = '?' + body[:40]
        res.append(m.group(1) + ':' + v)
    note = 'N' if os.path.exists(os.path.join(base, d, 'NOTE.md')) else ''
    print(d, ' '.join(res), note)
