"""Per-property configuration of the check pipeline (what is proved, which
engine ties it to the code, what the evidence says about trust)."""

TRUSTED_COMMON = [
    "Lean 4.33.0 kernel (thorough tier: re-checked by leanchecker)",
    "axioms propext, Classical.choice, Quot.sound only (audited per theorem on every run)",
    "correspondence harness /verif/harness (generators, canonicalisation, error mapping) and the compiled model driver neofs_model",
    "translator lib/generate.py + harness/extract (regenerated Gen/*.lean)",
]

PROPS = {}
NOT_BUILT = ("not claimed in this revision: the Lean model, theorems and code tie for this property are not built yet "
             "(DESIGN.md §11 gives the order of work); no other technique is substituted")
NOT_CLAIMED = {}
ENGINES = [
    {"name": "lean", "path": "lean/", "kind_free_text": "Lean 4 library NeoFS: Model/* executable models, Props/Cxx.lean property theorems, Main.lean line-protocol driver (neofs_model)"},
    {"name": "ec", "path": "harness/eng_ec.go", "serves_properties": ["C21", "C22"], "kind_free_text": "differential driver of internal/ec against Model/EC.lean"},
]


def prop(pid, **kw):
    kw.setdefault("level", "proof")
    kw.setdefault("engines", [])
    kw.setdefault("theorems", [])
    kw.setdefault("lean_modules", ["NeoFS.Props." + pid])
    PROPS[pid] = kw


prop("C22",
     theorems=["NeoFS.EC.nodeSeq_each_once", "NeoFS.EC.nodeSeq_perm", "NeoFS.EC.nodeSeq_first",
               "NeoFS.EC.nodeSeq_distinct_starts"],
     engines=[dict(name="ec", quick=1, thorough=1)],
     claim="Unbounded Lean theorems (every part, total>=1, nodes): the order is duplicate-free, contains exactly 0..nodes-1, is a permutation "
           "of it, starts at the part's own index when nodes>=total, and distinct parts start at distinct nodes; the model is tied to "
           "iec.NodeSequenceForPart by an exhaustive differential run over the property's whole stated domain (thorough) or a dense corner plus sample (quick).",
     note="Trusted: Lean kernel; hand-written model Model/EC.lean (tied by correspondence only); Go ints assumed not to overflow for the small indexes used.",
     rule="every (part,total,nodes) triple of a dense corner (quick: total<=10, nodes<=36 plus 3000 seeded triples up to 32/128; "
          "thorough: the whole 1..32 x 0..128 domain) is run through the real iec.NodeSequenceForPart and the Lean nodeSeq; "
          "non-trivial = nodes > total > 1 (several residue classes, several rounds); distinct by triple",
     trusted=["Model/EC.lean nodeSeq is a hand transcription of NodeSequenceForPart; tied by the line-by-line correspondence run"],
     assumptions=["indexes are non-negative machine ints far below 2^63 (no wrap in partIdx+shift)"])
