"""Per-property configuration of the check pipeline (what is proved, which
engine ties it to the code, what the evidence says about trust)."""

TRUSTED_COMMON = [
    "Lean 4.33.0 kernel (thorough tier: re-checked by leanchecker)",
    "axioms propext, Classical.choice, Quot.sound only (audited per theorem on every run)",
    "correspondence harness /verif/harness (generators, canonicalisation, error mapping) and the compiled model driver neofs_model",
    "translator lib/generate.py + harness/extract (regenerated Gen/*.lean)",
]

PROPS = {}
NOT_BUILT = ("not claimed in this revision: the Lean model, theorems and code tie for this property are not built yet "
             "(DESIGN.md §11 gives the order of work); no other technique is substituted")
NOT_CLAIMED = {}
ENGINES = [
    {"name": "lean", "path": "lean/", "kind_free_text": "Lean 4 library NeoFS: Model/* executable models, Props/Cxx.lean property theorems, Main.lean line-protocol driver (neofs_model)"},
    {"name": "int256", "path": "harness/eng_int256.go", "serves_properties": ["C05"], "kind_free_text": "differential driver of internal/signed256 and the int-string readers of pkg/core/object against Model/Int256.lean, with a math/big oracle"},
    {"name": "range", "path": "harness/eng_range.go", "serves_properties": ["C11"], "kind_free_text": "differential driver of PayloadRange.Resolve and of range reads through FSTree/shard/engine against Gen/Arith.lean + Model/Range.lean"},
    {"name": "grace", "path": "harness/eng_grace.go", "serves_properties": ["C47"], "kind_free_text": "runs the real shard new-epoch handler and engine start-up cleanup against Model/Grace.lean over the property's full table"},
    {"name": "arith", "path": "harness/eng_arith.go", "serves_properties": ["C39"], "kind_free_text": "differential driver of pkg/util/precision against Model/Precision.lean with a math/big oracle"},
    {"name": "timers", "path": "harness/eng_timers.go", "serves_properties": ["C40"], "kind_free_text": "drives real timers.EpochTimers with counting handlers against Model/Timers.lean"},
    {"name": "gov", "path": "harness/eng_gov.go", "serves_properties": ["C36"], "kind_free_text": "enumerates current/main-network/inner-ring key lists through the real newAlphabetList/updateInnerRing against Model/Governance.lean"},
    {"name": "meta", "path": "harness/eng_meta.go", "serves_properties": ["C01", "C02", "C06", "C07"], "kind_free_text": "history driver of the real metabase (meta.DB on a temp bolt file, settable epoch) against Model/Meta.lean + Spec/MetaRef.lean"},
    {"name": "dump", "path": "harness/eng_dump.go", "serves_properties": ["C46"], "kind_free_text": "dumps real shards and restores them through chunking readers against Model/Dump.lean"},
    {"name": "wc", "path": "harness/eng_wc.go", "serves_properties": ["C17"], "kind_free_text": "history driver of the real writecache over a failure-injecting main storage against Model/WC.lean"},
    {"name": "ec", "path": "harness/eng_ec.go", "serves_properties": ["C21", "C22"], "kind_free_text": "differential driver of internal/ec against Model/EC.lean"},
]


def prop(pid, **kw):
    kw.setdefault("level", "proof")
    kw.setdefault("engines", [])
    kw.setdefault("theorems", [])
    kw.setdefault("lean_modules", ["NeoFS.Props." + pid])
    PROPS[pid] = kw


prop("C22",
     theorems=["NeoFS.EC.nodeSeq_each_once", "NeoFS.EC.nodeSeq_perm", "NeoFS.EC.nodeSeq_first",
               "NeoFS.EC.nodeSeq_distinct_starts"],
     engines=[dict(name="ec", quick=1, thorough=1)],
     claim="Unbounded Lean theorems (every part, total>=1, nodes): the order is duplicate-free, contains exactly 0..nodes-1, is a permutation "
           "of it, starts at the part's own index when nodes>=total, and distinct parts start at distinct nodes; the model is tied to "
           "iec.NodeSequenceForPart by an exhaustive differential run over the property's whole stated domain (thorough) or a dense corner plus sample (quick).",
     note="Trusted: Lean kernel; hand-written model Model/EC.lean (tied by correspondence only); Go ints assumed not to overflow for the small indexes used.",
     rule="every (part,total,nodes) triple of a dense corner (quick: total<=10, nodes<=36 plus 3000 seeded triples up to 32/128; "
          "thorough: the whole 1..32 x 0..128 domain) is run through the real iec.NodeSequenceForPart and the Lean nodeSeq; "
          "non-trivial = nodes > total > 1 (several residue classes, several rounds); distinct by triple",
     trusted=["Model/EC.lean nodeSeq is a hand transcription of NodeSequenceForPart; tied by the line-by-line correspondence run"],
     assumptions=["indexes are non-negative machine ints far below 2^63 (no wrap in partIdx+shift)"])

prop("C05",
     theorems=["NeoFS.Int256.encode_length", "NeoFS.Int256.decode_encode", "NeoFS.Int256.encode_order",
               "NeoFS.Int256.cmp_correct", "NeoFS.Int256.key_order_eq_cmp", "NeoFS.Int256.parse_accepts_iff",
               "NeoFS.Int256.parse_toDec", "NeoFS.Int256.readers_agree", "NeoFS.Int256.compare_strings_numeric"],
     engines=[dict(name="int256", quick=1, thorough=1)],
     claim="Unbounded Lean theorems over the whole 257-bit signed range: keys have length 33, decode(encode z)=z, byte order of keys = numeric order "
           "= Int.Cmp, ParseDecimal accepts exactly [+-]?digits in range with the right value, print-then-parse is the identity, the two-step reader "
           "(splitIntString+ParseNormalizedDecimal) equals ParseDecimal on every string, compareIntStrings is numeric order for digit strings of any length. "
           "Model tied to signed256 / metadata.go by a differential run on boundary, random and malformed inputs.",
     note="Trusted: Lean kernel; hand model Model/Int256.lean incl. the modelled behaviour of third-party uint256.SetFromDecimal/Dec "
          "(one tolerated leading '+', leading zeros, range check) — tied by correspondence only.",
     rule="boundary values (0, +-1, +-2^k+-1 for 13 k up to 256) and seeded random 1..257-bit values; strings = decorated valid values, random strings over "
          "a sign/digit/garbage alphabet, single-character mutations, 70-81 digit strings; ops parse/split/norm/cmp/cmpstr/dec; non-trivial = accepted parse "
          "or value comparison, distinct by input",
     trusted=["uint256.Int.SetFromDecimal / Dec / Bytes32 / SetBytes32 (third party) are modelled, not verified"],
     assumptions=["strings are compared as byte strings (Go semantics); the model maps each byte to one Char"])

prop("C11",
     theorems=["NeoFS.Range.resolve_spec", "NeoFS.Range.slice_in_bounds", "NeoFS.Range.slice_zero_len", "NeoFS.Range.isFull_whole",
               "NeoFS.Range.shift_stream_spec", "NeoFS.Range.read_spec", "NeoFS.Range.readers_agree"],
     engines=[dict(name="range", quick=1, thorough=1)],
     claim="PayloadRange.Resolve, IsFull and checkTooBigRange are micro-translated from the current source into Gen/Arith.lean on every run; "
           "Lean proves for ALL 64-bit (mode, first, second, payload length) that Resolve returns exactly the slice the request denotes and "
           "out-of-range exactly when it is unsatisfiable (incl. off+ln overflow), that the reader selection of shiftPayloadRangeStream yields "
           "payload[off,off+ln) for every buffering split, and that ReadObjectParts agrees with the range-stream readers. The hand model of the "
           "reader selection is tied by a differential run through real FSTree (plain, zstd-compressed, combined), shard (+-write-cache) and engine.",
     note="Trusted: Lean kernel; the micro-translator harness/extract (tiny Go->Lean fragment; validated here by running Gen.resolve against the real "
          "Resolve on the exhaustive small domain and boundary values); Model/Range.lean shiftStream hand model; kernel FS and zstd assumed.",
     rule="resolve: every mode x (first,second) in 0..n+2 for payload lengths 0..14 (quick) / 0..64 (thorough) exhaustively, a 10^3 boundary grid around "
          "2^32/2^63/2^64 and seeded 64-bit values; read: seeded (layer, size of 15, mode, boundary-biased bounds, header on/off, API) through "
          "GetRangeStream / ReadPayloadRange / ReadObjectParts; non-trivial = satisfiable proper sub-slice, distinct by request",
     trusted=["bbolt, kernel file system and zstd under the storage layers are exercised, not modelled"],
     assumptions=["payloads below 2^63 bytes (larger ranges are rejected by checkTooBigRange, which is modelled)"])

prop("C47",
     theorems=["NeoFS.Grace.grace_iff", "NeoFS.Grace.discard_iff", "NeoFS.Grace.transient_never_discards",
               "NeoFS.Grace.future_mark_never_discards", "NeoFS.Grace.startup_iff"],
     engines=[dict(name="grace", quick=1, thorough=1)],
     claim="The grace-period condition of Shard.setEpochEventHandler is micro-translated from the source on every run; Lean proves for every uint64 "
           "epoch and int64 unpaid-since that the new-epoch handler discards iff payments are on, nothing failed, 0 <= unpaidSince <= epoch and "
           "epoch-unpaidSince >= 3 (so transient errors, disabled payments and marks ahead of the epoch never discard), and that start-up cleanup "
           "discards iff the source answers ContainerNotFound. The decision skeleton is tied by running the property's whole table through the real "
           "shard handler and real engine start-up.",
     note="Trusted: Lean kernel, micro-translator, hand model Model/Grace.lean of the handler's check order (tied by correspondence). The policer's "
          "container-missing path is covered under C26's engine, cmd/neofs-node (package main) is not reachable.",
     rule="exhaustive table epoch 0..10 x unpaidSince -1..12 x payments on/off x payment-check error, container-list error every third mark, 35 boundary "
          "pairs near 2^32/2^63/2^64, 3 container-source answers through engine start-up; non-trivial = payments on, no error, mark set; distinct by op",
     assumptions=["the handler is driven synchronously through a verif export; asynchronous event delivery is what makes marks ahead of the epoch reachable"])

prop("C39",
     theorems=["NeoFS.Precision.roundtrip_le", "NeoFS.Precision.exact_when_finer", "NeoFS.Precision.C39_counterexample",
               "NeoFS.Precision.no_wrap_partial", "NeoFS.Precision.no_wrap_upto_11",
               "NeoFS.Precision.roundtrip_le_int64", "NeoFS.Precision.roundtrip_more_iff", "NeoFS.Precision.C39_roundtrip_counterexample",
               "NeoFS.Precision.no_wrap_partial_neg", "NeoFS.Precision.concurrent_eq_sequential", "NeoFS.Precision.concurrent_complete"],
     engines=[dict(name="arith", quick=1, thorough=1)],
     claim="Lean proves for every integer amount OF EITHER SIGN and every precision that main-net -> balance -> main-net never yields more than the "
           "original (big.Int.Div is Euclidean: it rounds a negative non-multiple down) and is exact for precision >= 8; at the int64 level the same "
           "holds whenever neither conversion wraps, and for precision < 8 the amounts that come back LARGER are pinned exactly: those whose multiple "
           "of the factor below them lies below MinInt64 (fewer than 10^(8-p) amounts next to MinInt64; theorem roundtrip_more_iff, known finding). "
           "It pins the exact overflow boundary: no wrap whenever |amount| x 10^|p-8| fits int64 (all amounts < 2^53 for p in 8..11). "
           "The property's full no-overflow claim is FALSE for the current code (theorem C39_counterexample: p=12, n=2^53-1 wraps negative) and is "
           "recorded as a known finding. A conversion is a function of (precision, direction, amount) only, so conversions overlapping in time through "
           "copies of one converter give the sequential results in every order (concurrent_eq_sequential). The model is tied to "
           "precision.Fixed8Converter by a differential run over boundary and random amounts of both signs and by concurrent conversions through "
           "copies of one converter compared with the sequential results.",
     note="Trusted: Lean kernel; hand model Model/Precision.lean (big.Int Div = Euclidean division, Int64() = low 64 bits) tied by correspondence. "
          "Known findings C39-mul-overflow and C39-roundtrip-wrap-at-min-int64 (not repaired: need an API change). The concurrent op explores "
          "schedules by many trials (2-6 goroutines released together), it does not enumerate them.",
     rule="precisions 0..18 x (boundary amounts of both signs: 0, +-1, +-(10^k, 10^k+-1, 1.5*10^k), +-(2^63/10^k+-1), +-2^53/10^k, MinInt64 and the "
          "multiples of 10^k next to it, MaxInt64, plus seeded random magnitudes of both signs) x both directions; 40 concurrent ops (2-6 goroutines x "
          "2000 rounds x 4-12 amounts through copies of one converter); non-trivial = product fits int64, |n| > 1, p != 8, or a concurrent op; distinct by op",
     assumptions=[])

prop("C40",
     theorems=["NeoFS.Timers.nothing_after_done", "NeoFS.Timers.epoch_fires_once", "NeoFS.Timers.epoch_fires_once_after_reset",
               "NeoFS.Timers.delta_fires_once_aux", "NeoFS.Timers.delta_fires_once",
               "NeoFS.Timers.history_epoch_once", "NeoFS.Timers.history_delta_once", "NeoFS.Timers.runEvs_eq_lin",
               "NeoFS.Timers.overlap_epoch_once", "NeoFS.Timers.overlap_delta_once", "NeoFS.Timers.firstOnly_count",
               "NeoFS.Timers.overlapped_reset_rearms", "NeoFS.Timers.overlapped_update_no_double_fire"],
     engines=[dict(name="timers", quick=1, thorough=1)],
     claim="Lean proves, for every prior timer state, every reset and every (possibly non-monotonic) sequence of block times until the next reset: the "
           "new-epoch handlers fire exactly at the first block time reaching lastTick+dur and never again; every sub-epoch handler with mul<=div fires "
           "exactly at the first block time reaching lastTick+dur*mul/div and never again (uint64 overflow of lastTick+dur / dur*mul excluded by explicit "
           "hypotheses; the mul>div case, which the early return suppresses, is stated as the hypothesis and executed on the real code). The same is "
           "proved inside whole histories, including histories in which a Reset or a second UpdateTime is issued WHILE a handler of a running "
           "UpdateTime executes: the mutex is held over the handlers, the overlapped call is linearised right after the running UpdateTime "
           "(runEvs_eq_lin), a reset issued from inside a handler is never lost and an overlapped UpdateTime never fires a second time. Tied to "
           "pkg/timers.EpochTimers by all short histories plus seeded long ones, and by histories whose REAL handler callbacks start the overlapped "
           "call in another goroutine and wait a bounded time for it.",
     note="Trusted: Lean kernel; hand model Model/Timers.lean (tied by correspondence); the mutex makes UpdateTime/Reset atomic steps, so a history is a "
          "sequence of them - this is exercised, not assumed: the overlapped call is really issued while the handler runs and must behave as if "
          "issued after the running UpdateTime returned.",
     rule="all histories of length <= 3 (quick) / <= 5 (thorough) over 6 resets x 9 block times with 5 fractions (1/2, 1/1, 3/2, 0/1, 2/3), plus seeded "
          "histories of 4..17 events incl. values near 2^64, plus 70 deadline histories (7 handler sites x 5 overlapped calls x 2 block times) and seeded "
          "histories of 4..13 events with 40% overlapped calls (Reset / UpdateTime issued from inside handler e0,e1,d0..d4); non-trivial = more than 3 "
          "events; distinct by history")

prop("C36",
     theorems=["NeoFS.Gov.rotation", "NeoFS.Gov.rotation_differs", "NeoFS.Gov.innerRing_update"],
     engines=[dict(name="gov", quick=1, thorough=1)],
     claim="General Lean theorems over arbitrary duplicate-free key lists: a proposed alphabet has the current size, no duplicates, only current and "
           "main-network keys, at most floor((n-1)/3) new keys and at least one new key (so it differs from the current one); the derived inner ring "
           "list is duplicate-free and equals (ring minus replaced keys) plus the new alphabet. Proved by loop invariants over the two loops of "
           "newAlphabetList and an injectivity argument for updateInnerRing; model tied to the real functions over all lists of a 7/8-key universe.",
     note="Trusted: Lean kernel; hand model Model/Governance.lean (keys as ranks in their sort order; map keyed by address modelled by list membership) "
          "tied by correspondence through verif exports of the two unexported functions.",
     rule="current lists = all subsets of size 1..6 of a 7-key universe (8 in thorough), main lists = all supersized subsets (quick: a seeded quarter), "
          "each in shuffled order; per pair two inner rings = alphabet + 0..2 extra keys incl. keys that become alphabet; non-trivial = a rotation "
          "is proposed; distinct by op")

prop("C21",
     theorems=["NeoFS.EC.parts_equal_length", "NeoFS.EC.concat_split", "NeoFS.EC.decode_any_subset", "NeoFS.EC.decode_range_exact",
               "NeoFS.EC.idCoder_lawful", "NeoFS.EC.split_clamped", "NeoFS.EC.encodeBuf_no_view_write",
               "NeoFS.EC.multi_rule_independent", "NeoFS.EC.unclamped_corrupts"],
     engines=[dict(name="ec", quick=1, thorough=1)],
     claim="Lean proves for every rule d>=1/p and every payload: d+p parts of equal length ceil(n/d); the data parts concatenate to the payload; given the "
           "Reed-Solomon law (a Coder record, shown satisfiable), Decode returns the payload from ANY >= d parts and partial reconstruction restores "
           "exactly the requested parts; and, on a memory-level model of reedsolomon.Split/Encode, encoding any list of rules from a buffer whose capacity "
           "is clamped to the payload never writes to the buffer (no encoding can disturb another), while without the clamp it does (decide-checked). "
           "Tied to internal/ec and putsvc.modifyECParentObject by a differential run: all erasure patterns up to p+1 for d+p<=8, partial "
           "reconstruction masks, Split memory layouts by pointer inspection for 6 capacities, multi-rule encodings from the pooled buffer.",
     note="Trusted/assumed: klauspost/reedsolomon Galois-field arithmetic (Coder.Lawful; the run exercises the law on the real library), its Split memory "
          "behaviour (Model/ECBuf.lean, tied by the layout stream), SHA-256. Decode of an empty payload is outside the theorem (the get service never calls it).",
     rule="rules 1..5/0..3 (thorough 1..8/0..4) x 16 payload lengths 0..4096 x every erasure pattern of <= p+1 parts (quick: <= 60 sampled per case), "
          "3 present/required masks, 6 buffer capacities, 400 seeded multi-rule encodings; non-trivial = erased parts and non-empty payload, or "
          "multi-rule with >= 2 rules; distinct by op")

META_RULE = ("seeded worlds: per sequence every address has ONE fixed header (as ids are header hashes): ids 1..8 get random roles (root, "
             "first/middle/last split part, link, v1 split member, EC part, EC part of a split child, tombstone, lock, malformed), ids 9..12 are "
             "virtual parents of one kind each; 8..35 ops per history over put / mark (default, redundant) / delete / revive / container "
             "inhume+delete / epoch; after EVERY op all views are dumped for all 36 addresses (Exists, Get, Get raw, IsLocked) plus listing "
             "pages, expired iteration, GetGarbage, counters, container info, on implementation and model, and the model's views are compared "
             "with the declarative reference; non-trivial = history longer than 5 ops; distinct by history")

prop("C01",
     theorems=["NeoFS.Meta.status_eq_ref", "NeoFS.Meta.exists_follows_ref", "NeoFS.Meta.get_follows_ref",
               "NeoFS.Meta.isLocked_iff_live_lock", "NeoFS.Meta.run_wf", "NeoFS.Meta.views_agree_after_any_history"],
     engines=[dict(name="meta", quick=1, thorough=1)],
     spec_assertions=["exists-reports", "get-reports", "islocked-", "listing-", "expired-iteration"],
     claim="Lean proves: every operation of the metabase model keeps buckets well-formed (run_wf: all histories), and on every well-formed bucket the "
           "status function that Exists/Get/search/EC resolution go through equals the declarative reference rules (tombstone, garbage mark, "
           "expiry, SOME live lock overrides, two-level parent inheritance), and IsLocked equals 'some live lock exists' - for every address and "
           "epoch. The model (Model/Meta.lean, a relational model of the bbolt bucket) is tied to the real metabase by a differential run that "
           "dumps all eight observation points after every op; listing and expired iteration are compared with the reference on every explored state.",
     note="Trusted: Lean kernel; hand model Model/Meta.lean and bbolt's ordered-map/transaction semantics (tied by correspondence: 540k ops matched in a "
          "thorough sweep); histories carry valid objects only (one header per id, acyclic parents, validator-accepted expiration strings) - "
          "malformed metadata (e.g. a parent sharing its children's split id) makes collectChildren recurse forever in the real code and is excluded.",
     rule=META_RULE)

prop("C02",
     theorems=["NeoFS.Meta.run_ctrOK", "NeoFS.Meta.typed_counters_exact", "NeoFS.Meta.dbCounters_eq_viewCount",
               "NeoFS.Meta.putChain_inv", "NeoFS.Meta.deleteMetadata_frame", "NeoFS.Meta.apply_removal",
               "NeoFS.Meta.container_info_counterexample", "NeoFS.Meta.syncCounters_ok", "NeoFS.Meta.recount_agrees"],
     lean_modules=["NeoFS.Props.C02"],
     engines=[dict(name="meta", quick=1, thorough=1)],
     spec_assertions=["typed-counters", "container-info"],
     claim="Lean proves by induction over ALL histories of valid objects (put with embedded parents, marks of both kinds, tombstones for stored "
           "and unstored targets, deletions, revivals, container removals) that the five typed counters equal the number of indexed objects "
           "of each kind in live containers, and that every floored subtraction is covered (no wrap, no double count). The container size "
           "estimation is shown NOT exact (decide-checked counterexample) and recorded as known finding C02-gc-counter; all other deviations "
           "found were repaired (4 fix commits). Model tied to the real metabase by the differential history run with counters and container "
           "info dumped after every op.",
     note="Trusted: Lean kernel; Model/Meta.lean + bbolt semantics (correspondence); ValidOp (no storage groups, regular embedded parents, distinct "
          "ids along a header chain) describes what the format validator lets through. Shard.ContainerInfo delegates to the metabase value.",
     rule=META_RULE)

prop("C07",
     theorems=["NeoFS.Meta.locked_rejects_tombstone", "NeoFS.Meta.locked_rejects_tombstone_put",
               "NeoFS.Meta.locked_never_expired_or_removed", "NeoFS.Meta.locked_available_without_parent",
               "NeoFS.Meta.lock_rejected_for_tombstoned", "NeoFS.Meta.lock_not_tombstonable",
               "NeoFS.Meta.expired_iteration_skips_locked", "NeoFS.Meta.isLocked_iff_live_lock"],
     lean_modules=["NeoFS.Props.C07"],
     engines=[dict(name="meta", quick=1, thorough=1)],
     spec_assertions=["islocked-", "lock-rejected", "tombstone-rejected", "lock-object-cannot", "exists-reports", "expired-iteration"],
     claim="Lean proves on every well-formed (hence every reachable) bucket: while SOME unexpired, not-removed lock exists a tombstone for the "
           "object is rejected and nothing is written; the object's own status is available (never expired/removed/marked); a lock is "
           "rejected for a tombstoned object (also when the object has meanwhile expired); a lock object cannot be tombstoned; expired-object "
           "iteration never yields a locked object. Two genuine defects found by the run were repaired (first-lock-only, lock on "
           "expired+tombstoned). Lock/tombstone 'arriving concurrently' = either order of the two bolt transactions: both orders are histories.",
     note="Trusted: Lean kernel; Model/Meta.lean (correspondence); bolt transaction atomicity (a put is one transaction). The shard GC loop itself "
          "(removeGarbage deletes what GetGarbage lists; collectExpiredObjects consumes IterateExpired) is covered only through these two "
          "metabase views here; forced marks (MarkGarbage) deliberately override locks as the property allows.",
     rule=META_RULE)

prop("C46",
     theorems=["NeoFS.Dump.readFull_exact", "NeoFS.Dump.restoreLoop_records", "NeoFS.Dump.restore_dump_exact",
               "NeoFS.Dump.restore_dump_all", "NeoFS.Dump.single_read_loses_data"],
     engines=[dict(name="dump", quick=1, thorough=1)],
     claim="Lean proves for every list of objects (< 2^32 bytes each) and EVERY chunking of the byte stream by the reader: Restore(Dump(objs)) yields "
           "exactly the valid objects in order with identical bytes and counts the corrupted ones it skips; io.ReadFull is proved to return exactly "
           "the next n bytes under any chunking. The repaired defect (single Read) is kept as a decide-checked counterexample. Tied to the real "
           "Shard.Dump/Restore by dumping real shards (with/without write-cache) and restoring through plain, one-byte, half and random-chunk readers "
           "with a corrupted record, with and without ignore-errors.",
     note="Trusted: Lean kernel; Model/Dump.lean (object decoding = a validity predicate; Shard.Put of a decoded object assumed to store it - observed "
          "by Get on the restored shard in the run).",
     rule="60 (quick) / 3000 (thorough) seeded dumps of 0..6 objects (payload 0..5004 bytes) x reader kind (plain, 1-byte, 2-4 byte, random chunks up "
          "to 9000) x optional corrupted record x ignore-errors; non-trivial = at least two objects through a chunking reader; distinct by op")

prop("C17",
     theorems=["NeoFS.WC.size_exact", "NeoFS.WC.failed_flush_keeps", "NeoFS.WC.flush_empties", "NeoFS.WC.flush_stores_all",
               "NeoFS.WC.put_inv", "NeoFS.WC.delete_inv", "NeoFS.WC.flushSingle_inv", "NeoFS.WC.flushAll_inv", "NeoFS.WC.reopen_inv"],
     engines=[dict(name="wc", quick=1, thorough=1)],
     claim="Lean proves by induction over ALL histories of puts (repeated, of the same and different addresses), deletes, single flushes and "
           "Flush passes under an arbitrary main-storage failure oracle, and reopens: at every step boundary (quiescent point) the reported size "
           "equals the total size of the files the cache holds and the counter map equals the file map (size_exact); a failed flush changes "
           "nothing (the object stays to be retried); a Flush pass with an accepting storage empties the cache, reports size 0 and leaves "
           "every object it held in the main storage with its size, whatever failures preceded it. The repaired defect (a re-put counted "
           "twice) is what size_exact excluded. Tied to the real writecache (real FSTree behind a failure-injecting storage, background "
           "scheduler running against the failing storage) by a differential run that dumps size, counters, cache files and main storage after every op.",
     note="Trusted: Lean kernel; hand model Model/WC.lean (tied by correspondence). Atomic steps are whole put/delete/flushSingle calls (the "
          "counters mutex and the per-address flushObjs set serialise them per address); the background scheduler's batching and 10 s back-off "
          "timing are exercised by the run (it keeps hitting the failing storage) but its fairness is an assumption, not a theorem: liveness is "
          "stated as 'one Flush pass with an accepting storage empties the cache from ANY reachable state'.",
     rule="120 (quick) / 6000 (thorough) seeded histories of 6..30 ops over 5 addresses (one fixed payload per address as ids are content hashes; "
          "sizes 0..2502 on both sides of the batch threshold, cache capacity 6000 so admission refusals occur): put / delete / Flush with ok or "
          "failing storage / reopen; after EVERY op: reported size, counter map, cache files, main storage; non-trivial = history > 5 ops; distinct by history",
     trusted=["FSTree and the kernel file system under the cache and the main storage are exercised, not modelled here (C10-C13)"],
     assumptions=["scheduler fairness (every cached address is eventually picked once the storage accepts writes) is assumed, not proved"])


# --- drop-in property definitions: lib/propdefs/Cxx.py (each calls prop(...) and may append to ENGINES) ---
def _load_propdefs():
    import glob
    import os
    d = os.path.join(os.path.dirname(os.path.abspath(__file__)), "propdefs")
    for f in sorted(glob.glob(os.path.join(d, "C*.py"))):
        with open(f) as fh:
            exec(compile(fh.read(), f, "exec"), {"prop": prop, "ENGINES": ENGINES, "NOT_CLAIMED": NOT_CLAIMED,
                                                   "META_RULE": META_RULE, "PROPS": PROPS})


_load_propdefs()
