"""Regeneration of lean/NeoFS/Gen/*.lean from /repo's current working tree."""
import os
import re
import subprocess

LAST_FACTS = None


def regenerate(repo, lean, build, env, log):
    """Returns True, or a list of problems (each counts as a broken proof obligation)."""
    global LAST_FACTS
    os.makedirs(build, exist_ok=True)
    harness = os.path.join(os.path.dirname(lean), "harness")
    exe = os.path.join(build, "extract")
    p = subprocess.run(["go", "build", "-o", exe, "./extract"], cwd=harness, env=env,
                       stdout=subprocess.PIPE, stderr=subprocess.STDOUT, text=True)
    log.write(p.stdout)
    if p.returncode != 0:
        return ["translator does not build: " + p.stdout[-400:]]
    gen = os.path.join(lean, "NeoFS", "Gen")
    os.makedirs(gen, exist_ok=True)
    tmp = os.path.join(build, "gen-%d" % os.getpid())
    os.makedirs(tmp, exist_ok=True)
    p = subprocess.run([exe, repo, tmp], stdout=subprocess.PIPE, stderr=subprocess.STDOUT, text=True)
    log.write(p.stdout)
    problems = [l[len("PROBLEM "):] for l in p.stdout.splitlines() if l.startswith("PROBLEM ")]
    if p.returncode != 0:
        problems.append("translator failed: " + p.stdout[-400:])
    facts = {}
    for f in sorted(os.listdir(tmp)):
        src = os.path.join(tmp, f)
        dst = os.path.join(gen, f)
        with open(src) as fh:
            new = fh.read()
        old = None
        if os.path.exists(dst):
            with open(dst) as fh:
                old = fh.read()
        if new != old:  # keep mtime stable when nothing changed so lake does not rebuild
            with open(dst, "w") as fh:
                fh.write(new)
        facts[f] = re.findall(r"^def (\S+)", new, flags=re.M)
        os.unlink(src)
    os.rmdir(tmp)
    LAST_FACTS = facts
    return True if not problems else problems
