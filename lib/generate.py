"""Regeneration of lean/NeoFS/Gen/*.lean from /repo's current working tree."""
import os

LAST_FACTS = None


def regenerate(repo, lean, build, env, log):
    """Returns True, or a list of problems (each counts as a broken proof obligation)."""
    return True
