#!/usr/bin/env python3
"""Regenerates MANIFEST.json from lib/props.py (run after editing props.py)."""
import json
import os
import subprocess
import sys

sys.path.insert(0, os.path.dirname(os.path.abspath(__file__)))
import props as P

ROOT = os.path.dirname(os.path.dirname(os.path.abspath(__file__)))
ids = [json.loads(l)["id"] for l in open(os.path.join(ROOT, "properties.jsonl")) if l.strip()]
hooks = subprocess.run(["git", "-C", "/repo", "log", "--format=%H %s", "60b87e2..HEAD"], capture_output=True, text=True).stdout.split("\n")
hook_commits = [l.split()[0] for l in hooks if l.strip() and l.split(" ", 1)[1].startswith("verif:")]
baseline = json.load(open("/root/.vp/BASELINE.json"))["cmd"]
checks = []
for pid in ids:
    if pid not in P.PROPS:
        continue
    c = P.PROPS[pid]
    checks.append({
        "property_id": pid,
        "quick_cmd": "./check %s --tier quick" % pid,
        "thorough_cmd": "./check %s --tier thorough" % pid,
        "evidence_file": "/verif/evidence/%s.json" % pid,
        "replay_cmd_template": "./check %s --replay {path}" % pid,
        "engine": ",".join(e["name"] for e in c["engines"]) or "lean",
        "level_claimed": {"category": c.get("level", "proof"), "text": c["claim"], "design_ref": "DESIGN.md §9 " + pid},
        "level_note": c["note"],
        "technique": c.get("technique", "Lean 4 theorems over an executable model + differential correspondence run against the Go implementation"),
    })
na = [{"property_id": pid, "reason": P.NOT_CLAIMED.get(pid, P.NOT_BUILT)} for pid in ids if pid not in P.PROPS]
m = {
    "version": 1,
    "setup_cmd": "./check --setup",
    "hooks": {
        "guard": "verif",
        "enable": "go build -tags verif (the harness module /verif/harness replaces github.com/nspcc-dev/neofs-node => /repo)",
        "baseline_off_cmd": baseline,
        "source_commits": hook_commits,
        "add_only": True,
    },
    "engines": P.ENGINES,
    "checks": checks,
    "not_applicable": na,
    "notes": "All checks share one pipeline (./check): regenerate Gen/*.lean from /repo, lake build of the property theorems, axiom audit, "
             "go build -tags verif of the harness against /repo, correspondence run model vs implementation, property oracle, search+shrink on breakage. "
             "Known findings: /verif/known_findings.json.",
}
json.dump(m, open(os.path.join(ROOT, "MANIFEST.json"), "w"), indent=1)
print("checks:", len(checks), "not_applicable:", len(na))
